"""C04 - the review gate lets a pull request through exactly when approvals suffice.

PROVE  coq/Properties/C04.v: Model/Approvals.v (check_approvals, line for line, over arbitrary lists of
       users and Z counts) against Spec/C04Spec.v (five conjuncts + waiver, counting by witness lists),
       for every input; the two reduction lemmas that justify the enumeration below.
GEN    Facts_C04.v, every fact observed on the running code (no reading of source shapes):
       the option registry after gwf.setup({}) - keys in registration order, privileged / authored as
       the real Reactor.handle_options enforces them (NotPrivileged / NotAuthored on a 2x2 credential
       grid per option); the command-line wiring of the five options check_approvals reads (what the
       real Reactor.init_settings installs under setup({}) and under setup({key: True})); the per-author
       bypass list (names the real PrAuthorsOptions.deserialize can switch on); the inter-settings rule
       (accepted/refused grid of the real bert_e.settings.setup_settings on generated settings files,
       leaders -1..4 x peers -1..4 x 0..4 project leaders, reduced to its unique smallest set of
       comparisons).
CORR   the real check_approvals on a real PullRequestJob object built around stubs
       (bert_e = SimpleNamespace(settings=dict-with-attribute-access), pull_request = SimpleNamespace with
       author / get_participants / get_approvals / get_change_requests / comments).  Options are switched
       on by synthesised comments through the real handle_comments (Reactor.init_settings +
       handle_options), by gwf.setup({name: True}) (command line) or through the real
       PrAuthorsOptions.deserialize (per-author setting); job.author_bypass / job.active_options are the
       real properties of bert_e/job.py.
       bulk: the reduced domain of the quantifier (see domain description in run) in one canonical order
       on both sides; the OCaml binary answers packed result vectors ("enum" request).  bert_e.exceptions.render
       is replaced in the bulk workers by the same Jinja rendering with ONE cached Environment (the
       original builds an Environment and recompiles the template on every raise: 7 ms instead of
       0.1 ms); corpus, explicit-variant strata and samples run with the original render.
Monitor: extracted spec_passb (proved equivalent to the declarative spec_pass) against the implementation
       on every case.
"""
import json
import os
import time
from types import SimpleNamespace

from lib import core, pipeline
from lib.coqgen import coq_str, coq_list, coq_bool

ID = 'C04'
COQ_CONE = ['Properties/C04.v', 'Properties/Pipeline.v']
EXTRACT = 'Extract/C04Extract.v'
DRIVER = 'ocaml/C04_driver.ml'
EXTRA_BINARIES = [pipeline.PIPELINE_BINARY]
ASSUMPTIONS = [
    'option values are booleans (False default, True when set) and required counts are ints: other truthy '
    'values a comment could install (approve=foo) are outside the quantifier',
    'user names are compared by equality only; the harness maps the five names to ids 0..4 injectively',
    'system-level clause ("goes no further": ApprovalRequired stops the job) is what raising means for '
    'handle_pull_request; it is exercised by the system harness, not here',
]
TRUSTED = ['modelled by hand: control flow of check_approvals and utils.bypass_* (Model/Approvals.v); data '
           '(option registry and flags, command-line wiring, BYPASS_LIST, settings rule) generated from /repo',
           'index -> case decoders of the packed enumeration exist twice (harness/props/c04.py:decode and '
           'ocaml/C04_driver.ml:decode); they are cross-checked on a sample through the explicit "case" '
           'request on every run',
           'bulk workers render ApprovalRequired through one cached jinja2 Environment instead of a fresh '
           'one per raise (same loader, same StrictUndefined, same template files)']

OPTION_NAMES = ['bypass_author_approval', 'bypass_peer_approval', 'bypass_leader_approval', 'approve', 'unanimity']
BYPASSES = OPTION_NAMES[:3]


# ------------------------------------------------------------------------------------------- GEN
# Every fact is OBSERVED on the running code of the tree under test (core.REPO); nothing is read from the
# shape of its source text, so a rewrite that keeps the behaviour keeps Facts_C04.v byte for byte.

_PROBE_PREFIX = '@probe-robot'
_SENTINEL = 'zz_probe_not_an_option'


def _option_class(reactor, key, privileged, authored):
    """Class name raised by the real Reactor.handle_options for '<prefix> <key>' at this credential level
    (None: accepted).  Only NotPrivileged / NotAuthored / NotFound are looked at by the callers; whatever an
    option handler does to (or raises on) the throw-away job is irrelevant."""
    job = SimpleNamespace(settings={}, pull_request=SimpleNamespace(id=0, author='probe-author', comments=[]),
                          bert_e=SimpleNamespace(settings={}), git=SimpleNamespace())
    try:
        reactor.handle_options(job, '%s %s' % (_PROBE_PREFIX, key), _PROBE_PREFIX,
                               privileged=privileged, authored=authored)
    except Exception as e:          # the class is the observable
        return type(e).__name__
    return None


def _observed_registry():
    """[(key, privileged, authored)] in registration order.  The flags are what handle_options enforces:
    privileged <=> the option is refused with NotPrivileged to an author-level caller,
    authored   <=> it is refused with NotAuthored to an admin-level caller who is not the author."""
    from bert_e.reactor import Reactor
    reactor = Reactor()
    if _option_class(reactor, _SENTINEL, True, True) != 'NotFound':
        raise ValueError('an unknown option is not refused with NotFound: the registry cannot be probed')
    registry = []
    for key in Reactor.get_options():
        if not isinstance(key, str):
            raise ValueError('option key %r is not a string' % (key,))
        grid = {(p, a): _option_class(reactor, key, p, a) for p in (False, True) for a in (False, True)}
        if 'NotFound' in grid.values():
            raise ValueError('registered option %r is not found by handle_options' % key)
        privileged = grid[(False, True)] == 'NotPrivileged'
        authored = grid[(True, False)] == 'NotAuthored'
        # the two flags must explain the whole grid (the refusal chain is: privileged first, then authored)
        for (p, a), got in grid.items():
            want = 'NotPrivileged' if privileged and not p else 'NotAuthored' if authored and not a else None
            if (got if got in ('NotPrivileged', 'NotAuthored') else None) != want:
                raise ValueError('option %r: refusals %r are not explained by two flags' % (key, grid))
        registry.append((key, privileged, authored))
    return registry


def _observed_default(key):
    """job.settings[key] as the real Reactor.init_settings installs it (current registration)."""
    from bert_e.reactor import Reactor
    job = SimpleNamespace(settings={})
    Reactor().init_settings(job)
    if key not in job.settings:
        raise ValueError('init_settings does not install %s' % key)
    return job.settings[key]


def _observed_bypass_list(registry_keys):
    """The per-author bypasses a settings file can grant: the names N for which the real
    PrAuthorsOptions.deserialize({user: [N]}) yields {user: {N: True, ...}}; a settings file listing any other
    name is refused or grants nothing.  Order: the keys deserialize builds for a user with an empty list, then
    registration order for anything granted beyond them."""
    from bert_e.settings import PrAuthorsOptions
    user = 'probe-author'

    def granted(listed):
        try:
            res = PrAuthorsOptions().deserialize({user: list(listed)})
        except Exception:
            return None
        row = res.get(user, {}) if isinstance(res, dict) else None
        if not isinstance(row, dict):
            raise ValueError('PrAuthorsOptions.deserialize returned an unexpected shape: %r' % (res,))
        return row
    empty = granted([])
    if empty is None:
        raise ValueError('PrAuthorsOptions.deserialize refuses an author without bypasses')
    if any(v is not False for v in empty.values()):
        raise ValueError('an author without bypasses is granted something: %r' % (empty,))
    candidates = list(empty)
    candidates += [k for k in registry_keys if k not in candidates]
    if not all(isinstance(k, str) for k in candidates):
        raise ValueError('BYPASS_LIST has an unexpected shape')
    out = []
    for name in candidates + [_SENTINEL]:
        row = granted([name])
        on = row is not None and row.get(name, False) is True
        if row is not None and any(v is True for k, v in row.items() if k != name):
            raise ValueError('listing %s grants another bypass: %r' % (name, row))
        if row is not None and not on and name in row:
            raise ValueError('listing %s is accepted but does not switch it on: %r' % (name, row))
        if on:
            out.append(name)
    if _SENTINEL in out:
        raise ValueError('any name is accepted as a per-author bypass: the list is not finite')
    return out


_TERMS = ('required_leader_approvals', 'required_peer_approvals', 'len(project_leaders)')
_CMP = (('>', lambda a, b: a > b), ('>=', lambda a, b: a >= b), ('<', lambda a, b: a < b),
        ('<=', lambda a, b: a <= b), ('==', lambda a, b: a == b), ('!=', lambda a, b: a != b))
_GRID = [(rl, rp, n) for rl in range(-1, 5) for rp in range(-1, 5) for n in range(0, 5)]
_MIN_SETTINGS = {'repository_owner': 'owner', 'repository_slug': 'slug', 'repository_host': 'mock',
                 'robot': 'probe-robot', 'robot_email': 'robot@example.com'}


def _settings_loaders():
    """Ways of loading a settings file with the real code, outermost entry point first."""
    import tempfile
    import bert_e.settings as st

    def by_file(values):
        import yaml
        with tempfile.TemporaryDirectory(prefix='c04_settings_') as d:
            path = os.path.join(d, 'settings.yml')
            with open(path, 'w') as f:
                yaml.safe_dump(values, f)
            return st.setup_settings(path)

    def by_schema(values):
        return st.SettingsSchema().load(dict(values))
    return [('setup_settings', by_file), ('SettingsSchema.load', by_schema)]


def _settings_refused(loader, rl, rp, n):
    values = dict(_MIN_SETTINGS, required_leader_approvals=rl, required_peer_approvals=rp,
                  project_leaders=['leader%d' % i for i in range(n)])
    try:
        s = loader(values)
    except Exception:
        return True
    def get(k):
        return s[k] if isinstance(s, dict) else getattr(s, k)      # the code reads job.settings.<k>
    if (get('required_leader_approvals'), get('required_peer_approvals'), len(get('project_leaders'))) != (rl, rp, n):
        raise ValueError('the loaded settings do not carry the probe values %r' % ((rl, rp, n),))
    return False


def _settings_rule():
    """The inter-settings rule, from the accepted/refused grid of the real settings loader over
    required_leader_approvals x required_peer_approvals in -1..4 and 0..4 project leaders: the unique smallest
    set of comparisons (left term listed before right term in _TERMS) whose union is exactly the refused
    part of the grid.  Fail closed when the grid is not such a union, or not uniquely."""
    import itertools
    refused = None
    for _name, loader in _settings_loaders():
        try:
            grid = frozenset(p for p in _GRID if _settings_refused(loader, *p))
        except Exception:
            continue                                       # this entry point cannot be driven: try the next
        if len(grid) < len(_GRID):                         # it accepts something: this is the loader
            refused = grid
            break
    if refused is None:
        raise ValueError('no settings loader accepts any settings file of the probe grid')
    atoms = []
    for (i, left), (j, right) in itertools.combinations(enumerate(_TERMS), 2):
        for op, f in _CMP:
            pts = frozenset(p for p in _GRID if f(p[i], p[j]))
            if pts and pts <= refused:
                atoms.append(((left, op, right), pts))
    for size in range(0, 4):
        covers = [c for c in itertools.combinations(atoms, size)
                  if frozenset().union(*[pts for _, pts in c]) == refused]
        if len(covers) == 1:
            return [rule for rule, _ in covers[0]]
        if covers:
            raise ValueError('the refused settings are described by several rule sets: %r'
                             % [[r for r, _ in c] for c in covers][:3])
    raise ValueError('the refused settings are not a union of comparisons between %s' % (_TERMS,))


def gen_facts(ctx):
    import bert_e.workflow.gitwaterflow as gwf
    try:
        gwf.setup({})
        registry = _observed_registry()
        keys = [k for k, _, _ in registry]
        wiring = []
        for key in OPTION_NAMES:
            if key not in keys:
                continue                      # the pin lemma of Proofs/C04Proofs.v fails on the missing entry
            d0 = _observed_default(key)
            gwf.setup({key: True})
            d1 = _observed_default(key)
            gwf.setup({})
            if type(d0) is not bool or type(d1) is not bool:
                raise ValueError('default of %s is not a bool: %r / %r' % (key, d0, d1))
            wiring.append((key, d0, d1))
    finally:
        gwf.setup({})
    bl = _observed_bypass_list(keys)
    rules = _settings_rule()
    text = '''(* GENERATED on every run by harness/props/c04.py from %s - do not edit *)
From Coq Require Import List String Bool.
Import ListNotations.
Open Scope string_scope.
(* Reactor.get_options() after gwf.setup({}): (key, (privileged, authored)) in registration order *)
Definition option_registry : list (string * (bool * bool)) := %s.
(* (key, (default after gwf.setup({}), default after gwf.setup({key: True}))) *)
Definition cmdline_wiring : list (string * (bool * bool)) := %s.
(* bert_e/settings.py PrAuthorsOptions.BYPASS_LIST *)
Definition bypass_list : list string := %s.
(* SettingsSchema.validate_inter_settings: (left, op, right) of each comparison that records an error *)
Definition settings_rule : list (string * (string * string)) := %s.
''' % (core.REPO,
       coq_list('(%s, (%s, %s))' % (coq_str(k), coq_bool(p), coq_bool(a)) for k, p, a in registry),
       coq_list('(%s, (%s, %s))' % (coq_str(k), coq_bool(a), coq_bool(b)) for k, a, b in wiring),
       coq_list(map(coq_str, bl)),
       coq_list('(%s, (%s, %s))' % (coq_str(a), coq_str(o), coq_str(b)) for a, o, b in rules))
    return {'Generated/Facts_C04.v': text}


# ------------------------------------------------------------------------------------ impl side

NAMES = ['author', 'peer1', 'peer2', 'leader', 'robot']     # ids 0..4 of the quantifier's universe
SRC = ('comment', 'cmdline', 'setting')


class _Settings(dict):
    """bert_e.settings stand-in: a dict (it is a ChainMap layer of job.settings) with attribute access."""
    def __getattr__(self, k):
        try:
            return self[k]
        except KeyError as e:
            raise AttributeError(k) from e


_ORIG_RENDER = None
_FAST_RENDER = None


def _renderers():
    """(original bert_e.exceptions.render, same rendering through one cached jinja2 Environment)."""
    global _ORIG_RENDER, _FAST_RENDER
    if _ORIG_RENDER is None:
        import bert_e.exceptions as exm
        from bert_e.lib import template_loader as tl
        from jinja2 import Environment, FileSystemLoader, StrictUndefined
        env = Environment(loader=FileSystemLoader(str(tl.TEMPLATE_DIR)), undefined=StrictUndefined)

        def fast(template, **kwargs):
            return env.get_template(template).render(**kwargs)
        _ORIG_RENDER, _FAST_RENDER = exm.render, fast
    return _ORIG_RENDER, _FAST_RENDER


def set_render(fast):
    import bert_e.exceptions as exm
    orig, cached = _renderers()
    exm.render = cached if fast else orig


_PAO_CACHE = {}


def _author_options(author, listed):
    """pr_author_options as the real settings loader builds it."""
    if not listed:
        return {}
    key = (author, tuple(listed))
    if key not in _PAO_CACHE:
        from bert_e.settings import PrAuthorsOptions
        _PAO_CACHE[key] = PrAuthorsOptions().deserialize({author: list(listed)})
    return _PAO_CACHE[key]


def new_case(rp=0, rl=0, need=True, sources=None, approve=False, unanimity=False, robot='robot',
             author='author', leaders=('leader',), participants=(), approvals=(), change_requests=()):
    src = {b: [False, False, False] for b in BYPASSES}
    for b, v in (sources or {}).items():
        src[b] = [bool(x) for x in v]
    return {'required_peer_approvals': rp, 'required_leader_approvals': rl, 'need_author_approval': need,
            'sources': src, 'approve': approve, 'unanimity': unanimity, 'robot': robot, 'author': author,
            'project_leaders': list(leaders), 'participants': list(participants),
            'approvals': list(approvals), 'change_requests': list(change_requests)}


def impl_outcome(c):
    """Run the real check_approvals on the case; the observable is return vs the exception class."""
    import bert_e.workflow.gitwaterflow as gwf
    from bert_e.job import PullRequestJob
    src = c['sources']
    cmdline = {b: True for b in BYPASSES if src[b][1]}
    listed = [b for b in BYPASSES if src[b][2]]
    admin = 'admin'
    comments = [SimpleNamespace(author=admin, text='@%s %s' % (c['robot'], b)) for b in BYPASSES if src[b][0]]
    if c['approve']:
        comments.append(SimpleNamespace(author=c['author'], text='@%s approve' % c['robot']))
    if c['unanimity']:
        comments.append(SimpleNamespace(author=admin, text='@%s unanimity' % c['robot']))
    try:
        pao = _author_options(c['author'], listed)
    except Exception as e:                     # the settings file is refused: the bypass cannot be expressed
        return type(e).__name__
    try:
        if cmdline:
            gwf.setup(cmdline)                 # what BertE.__init__ does with settings.cmd_line_options
        settings = _Settings(
            required_peer_approvals=c['required_peer_approvals'],
            required_leader_approvals=c['required_leader_approvals'],
            need_author_approval=c['need_author_approval'], robot=c['robot'],
            project_leaders=list(c['project_leaders']), admins=[admin],
            pr_author_options=pao,
            pull_request_base_url='http://host/pr/{pr_id}')
        pr = SimpleNamespace(id=1, author=c['author'], comments=comments,
                             get_participants=lambda: list(c['participants']),
                             get_approvals=lambda: list(c['approvals']),
                             get_change_requests=lambda: list(c['change_requests']))
        job = PullRequestJob(pull_request=pr, settings={},
                             bert_e=SimpleNamespace(settings=settings, project_repo=None, git_repo=None))
        try:
            gwf.handle_comments(job)           # Reactor.init_settings + handle_options on the comments
            gwf.check_approvals(job)
            return 'Pass'
        except Exception as e:                 # the class is the observable
            return type(e).__name__
    finally:
        if cmdline:
            gwf.setup({})


# ------------------------------------------------------------------------------------ domain

DOMAIN = 4 * 3 * 2 * 2 * 32 * 32 * 32 * 2        # 3 145 728, see decode
STRIDE = 1000003                                 # coprime with DOMAIN: position j <-> index j*STRIDE mod DOMAIN


def _users(mask):
    return [NAMES[u] for u in range(5) if (mask >> u) & 1]


def decode(k):
    """Index of the reduced domain -> case (same digits as ocaml/C04_driver.ml:decode)."""
    k, cr = divmod(k, 2)
    k, opts = divmod(k, 32)
    k, parts = divmod(k, 32)
    k, apps = divmod(k, 32)
    k, ail = divmod(k, 2)
    k, need = divmod(k, 2)
    k, rl = divmod(k, 3)
    k, rp = divmod(k, 4)
    assert k == 0
    return new_case(rp=rp, rl=rl, need=bool(need),
                    sources={b: [(opts >> n) & 1, 0, 0] for n, b in enumerate(BYPASSES)},
                    approve=bool((opts >> 3) & 1), unanimity=bool((opts >> 4) & 1),
                    leaders=['leader', 'author'] if ail else ['leader'],
                    participants=_users(parts), approvals=_users(apps),
                    change_requests=['peer1'] if cr else [])


def waived(c):
    """Harness-side classification only (evidence counters): the early return of the statement."""
    s = c['sources']
    return ((not c['need_author_approval'] or any(s['bypass_author_approval']) or c['approve'])
            and (any(s['bypass_peer_approval']) or c['required_peer_approvals'] <= 0)
            and (any(s['bypass_leader_approval']) or c['required_leader_approvals'] <= 0)
            and not c['unanimity'])


def encode(c):
    """Explicit request line of the model binary; user names -> ids (the five names keep 0..4)."""
    ids = {n: i for i, n in enumerate(NAMES)}

    def uid(n):
        if n not in ids:
            ids[n] = len(ids)
        return str(ids[n])

    def ulist(l):
        return ','.join(uid(n) for n in l) if l else '-'
    s = c['sources']
    flags = [c['need_author_approval']] + [s[b][n] for b in BYPASSES for n in range(3)] + \
            [c['approve'], c['unanimity']]
    return 'case %d %d %s %s %s %s %s %s %s' % (
        c['required_peer_approvals'], c['required_leader_approvals'], ' '.join(str(int(bool(f))) for f in flags),
        uid(c['robot']), uid(c['author']), ulist(c['project_leaders']), ulist(c['participants']),
        ulist(c['approvals']), ulist(c['change_requests']))


# ------------------------------------------------------------------------------------ workers

def _bulk_task(args):
    """Positions [lo, hi) of the canonical order against the model's packed answer."""
    lo, hi, packed = args
    set_render(fast=True)
    n_pass = n_raise = n_nontrivial = n_bad = 0
    bad = []
    other = {}
    for j in range(lo, hi):
        k = (j * STRIDE) % DOMAIN
        c = decode(k)
        out = impl_outcome(c)
        m = ord(packed[j - lo]) - 48
        model = 'AttributeErr' if m & 4 else ('Pass' if m & 1 else 'ApprovalRequired')
        spec = 'Pass' if m & 2 else 'ApprovalRequired'
        if out == 'Pass':
            n_pass += 1
        elif out == 'ApprovalRequired':
            n_raise += 1
        else:
            other[out] = other.get(out, 0) + 1
        if not waived(c):
            n_nontrivial += 1
        if out != model or out != spec:
            n_bad += 1
            if len(bad) < 5:
                bad.append((k, out, model, spec))
    return hi - lo, n_pass, n_raise, n_nontrivial, n_bad, bad, other


def _explicit_task(args):
    cases, fast = args
    set_render(fast=fast)
    return [impl_outcome(c) for c in cases]


def _pool():
    import multiprocessing as mp
    import bert_e.workflow.gitwaterflow  # noqa: F401  (import before forking)
    _renderers()
    return mp.get_context('fork').Pool(min(16, os.cpu_count() or 1))


def _model_packed(ctx, ranges):
    from concurrent.futures import ThreadPoolExecutor
    lines = ['enum %d %d' % r for r in ranges]
    n = max(1, (len(lines) + 15) // 16)
    groups = [lines[i:i + n] for i in range(0, len(lines), n)]
    with ThreadPoolExecutor(16) as ex:
        parts = list(ex.map(ctx.model.batch, groups))
    return [x for p in parts for x in p]


# ------------------------------------------------------------------------------------ case streams

def corpus_cases():
    d = os.path.join(core.VERIF, 'corpus', ID)
    out = []
    for f in sorted(os.listdir(d)) if os.path.isdir(d) else []:
        if f.endswith('.json'):
            data = json.load(open(os.path.join(d, f)))
            out.append((f, data))
    return out


def source_variants(c):
    """All ways of switching each bypass that is on through one source or through all three."""
    import itertools
    choices = []
    for b in BYPASSES:
        if any(c['sources'][b]):
            choices.append([[1, 0, 0], [0, 1, 0], [0, 0, 1], [1, 1, 1]])
        else:
            choices.append([[0, 0, 0]])
    for combo in itertools.product(*choices):
        v = dict(c)
        v['sources'] = {b: list(s) for b, s in zip(BYPASSES, combo)}
        yield v


def change_request_variants(c):
    for mask in range(32):
        v = dict(c)
        v['change_requests'] = _users(mask)
        yield v


def beyond_domain_case(rng):
    """Inputs outside the 5-user quantifier (the theorem covers them): more users, duplicates in the
    host lists, negative and large counts, arbitrary leader sets, any source combination."""
    pool = NAMES + ['u5', 'u6']
    def some(p=0.4, dup=True):
        l = [u for u in pool if rng.random() < p]
        if dup and l and rng.random() < 0.3:
            l.append(rng.choice(l))
        rng.shuffle(l)
        return l
    return new_case(rp=rng.randint(-2, 6), rl=rng.randint(-2, 4), need=rng.random() < 0.5,
                    sources={b: [rng.random() < 0.15 for _ in range(3)] for b in BYPASSES},
                    approve=rng.random() < 0.3, unanimity=rng.random() < 0.3,
                    author=rng.choice(['author', 'author', 'leader', 'u5']),
                    leaders=some(0.3), participants=some(), approvals=some(), change_requests=some(0.1, False))


def in_quantifier(c):
    """The statement's quantifier: counts 0..3 / 0..2, the five users, leaders {leader} or {leader, author}."""
    five = set(NAMES)
    return (0 <= c['required_peer_approvals'] <= 3 and 0 <= c['required_leader_approvals'] <= 2
            and c['robot'] == 'robot' and c['author'] == 'author'
            and sorted(c['project_leaders']) in (['leader'], ['author', 'leader'])
            and all(set(c[k]) <= five and len(set(c[k])) == len(c[k])
                    for k in ('participants', 'approvals', 'change_requests')))


def run_explicit(ctx, pool, cases, label, fast=True, distinct=False):
    """impl vs model (always) and impl vs spec (inside the quantifier) on explicit cases."""
    if not cases:
        return
    answers = ctx.model.batch_parallel([encode(c) for c in cases])
    n = max(1, min(400, (len(cases) + 63) // 64))
    chunks = [(cases[i:i + n], fast) for i in range(0, len(cases), n)]
    outs = [o for part in pool.map(_explicit_task, chunks) for o in part]
    for c, ans, out in zip(cases, answers, outs):
        model, spec_bit = ans.split(' ')
        spec = 'Pass' if spec_bit == '1' else 'ApprovalRequired'
        ctx.evaluations += 1
        ctx.count('stream=' + label)
        ctx.count('outcome=' + out)
        if distinct and not waived(c):
            ctx.seen_nontrivial(core.canon(c))
        if out != model:
            ctx.mismatch(c, out, model, 'check_approvals')
        if in_quantifier(c) and out != spec:
            ctx.violation(c, spec, out, 'review gate differs from the specification (%s)' % label)
        if ctx.evaluations % 4099 == 1:
            ctx.sample({'input': c, 'impl': out, 'model': model, 'spec': spec})


def _shrink_candidates(c):
    for key in ('change_requests', 'participants', 'approvals'):
        for n in range(len(c[key])):
            v = dict(c)
            v[key] = c[key][:n] + c[key][n + 1:]
            yield v
    for b in BYPASSES:
        for n in range(3):
            if c['sources'][b][n]:
                v = dict(c)
                v['sources'] = {x: list(y) for x, y in c['sources'].items()}
                v['sources'][b][n] = False
                yield v
    for key in ('approve', 'unanimity', 'need_author_approval'):
        if c[key]:
            v = dict(c)
            v[key] = False
            yield v
    for key in ('required_peer_approvals', 'required_leader_approvals'):
        if c[key] > 0:
            v = dict(c)
            v[key] = c[key] - 1
            yield v
    if sorted(c['project_leaders']) == ['author', 'leader']:
        v = dict(c)
        v['project_leaders'] = ['leader']
        yield v


def shrink(ctx, c):
    """Greedy descent (drop a user, switch an option off, lower a count) keeping impl != spec."""
    def fails(x):
        spec = 'Pass' if ctx.model.batch([encode(x)])[0].split(' ')[1] == '1' else 'ApprovalRequired'
        out = impl_outcome(x)
        return (spec, out) if out != spec else None
    best = fails(c)
    if best is None:
        return None
    progress = True
    while progress:
        progress = False
        for v in _shrink_candidates(c):
            r = fails(v)
            if r is not None:
                c, best, progress = v, r, True
                break
    return c, best[0], best[1]


REVIEW_CONFIGS = [{'peers': 1, 'leaders': 0, 'need_author': True}, {'peers': 2, 'leaders': 1, 'need_author': False},
                  {'peers': 1, 'leaders': 1, 'need_author': True}, {'peers': 0, 'leaders': 0, 'need_author': False}]


def run_system(ctx, replay_history=None):
    """System clause: the gate as the REAL evaluation calls it.  Seeded system histories under four review
    configurations; the control skeleton of every handler against Model/Pipeline.v (no landing step without
    check_approvals returning: C04_C06_C11_C12_gates_before_landing), and every real call of check_approvals
    inside _handle_pull_request replayed on the extracted gate and specification with the inputs read from the
    real job object (settings, options as the real comment handler left them, host approvals / participants /
    change requests)."""
    from lib import sysrun
    results = []
    if replay_history is not None:
        m = ctx.extra_models.get('Pipeline')
        results = sysrun.run(ctx, [0], 0, [], do_corr='pipeline', model_exe=m.exe if m else None,
                             replay_history=replay_history)
    else:
        per = 6 if ctx.quick else 60
        ctx.rule += pipeline.TIE_RULE % (per * len(REVIEW_CONFIGS)) + (
            ', under required peers/leaders/author approval (1,0,on) (2,1,off) (1,1,on) (0,0,off); every real '
            'check_approvals call inside a pull-request evaluation is replayed on the extracted gate and '
            'specification with the inputs read from the real job')
        for k, cfg in enumerate(REVIEW_CONFIGS):
            results += pipeline.tie(ctx, per, offset=700 + 100 * k, cfg_override=cfg)
    recs = [(r, g) for r in results for g in r.get('gates', []) if g['stage'] == 'check_approvals']
    cases, keep = [], []
    for r, g in recs:
        if 'capture_error' in g['input'] or g['ans'] is None:
            ctx.count('system_gate:capture_error')
            continue
        # the world's users under the names of the statement's universe (admin is the project leader there)
        ren = {'bert-e': 'robot', 'admin': 'leader', 'author': 'author', 'peer': 'peer1'}
        c = dict(g['input'])
        for k in ('robot', 'author'):
            c[k] = ren.get(c[k], c[k])
        for k in ('project_leaders', 'participants', 'approvals', 'change_requests'):
            c[k] = [ren.get(u, u) for u in c[k]]
        cases.append(c)
        keep.append((r, g))
    if not cases:
        return
    for (r, g), c, ans in zip(keep, cases, ctx.model.batch([encode(c) for c in cases])):
        model, spec_bit = ans.split(' ')
        spec = 'Pass' if spec_bit == '1' else 'ApprovalRequired'
        out = 'Pass' if g['ans'] == 'K' else g['ans'].split(':', 1)[1]
        ctx.evaluations += 1
        ctx.count('system_gate:' + out)
        if not waived(c):
            ctx.seen_nontrivial('sys|' + core.canon({k: c[k] for k in c if k != 'sources'}))
        inp = {'seed': r['seed'], 'history': r.get('history'), 'event': g['event'], 'job_index': g['job_index'],
               'gate_input': c}
        if out != model:
            ctx.mismatch(inp, out, model, 'check_approvals (real job inside _handle_pull_request)')
        if in_quantifier(c) and out != spec:
            ctx.violation(inp, spec, out, 'review gate of a real evaluation differs from the specification',
                          key=core.canon(c))


def run(ctx, only_cases=None):
    _run(ctx, only_cases)
    if only_cases is None:
        from lib import authoropts, identity
        identity.check(ctx, 'check_approvals: project_leaders, robot, author against host approvals / participants')
        authoropts.check(ctx, relevant=BYPASSES)      # "bypassed ... per-author setting": several authors in one file
        run_system(ctx)
    if only_cases is None and ctx.spec_fail:
        first = next((f for f in ctx.spec_fail if in_quantifier(f['input'])), None)
        res = shrink(ctx, first['input']) if first else None
        if res is not None:
            c, spec, out = res
            ctx.spec_fail.insert(0, {'input': c, 'expected': spec, 'observed': out, 'key': core.canon(c),
                                     'what': 'review gate differs from the specification (shrunk from: %s)'
                                             % first['what']})


def _run(ctx, only_cases=None):
    ctx.rule = ('bulk: the reduced domain of the quantifier (peers 0..3 x leaders 0..2 x need_author x '
                'author-is-leader x 2^5 approvers x 2^5 participants x 2^5 option subsets, bypasses by comment, '
                'x change request {none, peer1}) = 3 145 728 cases, %s; explicit: corpus, all single-source / '
                'all-three-sources variants and all 2^5 change-requester sets on a seed-selected stratum '
                '(the two proved reduction lemmas, checked on the implementation), a stream of inputs beyond '
                'the quantifier (more users, duplicates, negative/large counts; model only). '
                'distinct_nontrivial = bulk and corpus cases (distinct by construction) that do not take the '
                'early return, i.e. some requirement is not waived and the reviewer sets decide; the explicit '
                'streams are not counted there' %
                ('1/16 stratum (positions of the fixed permutation j*1000003 mod 3145728 selected by seed)'
                 if ctx.quick else 'all of it'))
    if ctx.model is None:
        ctx.notes.append('extracted model unavailable: correspondence and monitor not run')
        return
    import bert_e.workflow.gitwaterflow as gwf
    gwf.setup({})
    pool = _pool()
    try:
        if only_cases is not None:
            run_explicit(ctx, pool, only_cases, 'replay', fast=False, distinct=True)
            return
        # 1. corpus, always first, original render ------------------------------------------
        corpus = corpus_cases()
        run_explicit(ctx, pool, [d['input'] for _, d in corpus], 'corpus', fast=False, distinct=True)
        for fname, data in corpus:
            out = impl_outcome(data['input'])
            if out != data['expected']:
                ctx.violation(data['input'], data['expected'], out, 'corpus case %s: %s' % (fname, data.get('what', '')))
        # 2. bulk -----------------------------------------------------------------------------
        t0 = time.time()
        if ctx.quick:
            s = ctx.seed % 16
            lo, hi = s * DOMAIN // 16, (s + 1) * DOMAIN // 16
        else:
            lo, hi = 0, DOMAIN
        step = 4096
        ranges = [(a, min(a + step, hi)) for a in range(lo, hi, step)]
        packed = _model_packed(ctx, ranges)
        ctx.extra['model_enum_s'] = round(time.time() - t0, 1)
        failures, n_bad_total = [], 0
        for (n, n_pass, n_raise, n_nt, n_bad, bad, other) in pool.imap_unordered(
                _bulk_task, [(a, b, p) for (a, b), p in zip(ranges, packed)]):
            ctx.evaluations += n
            ctx.nontrivial_extra += n_nt
            ctx.count('stream=bulk', n)
            ctx.count('outcome=Pass', n_pass)
            ctx.count('outcome=ApprovalRequired', n_raise)
            ctx.count('bulk_early_return', n - n_nt)
            for k, v in other.items():
                ctx.count('outcome=' + k, v)
            n_bad_total += n_bad
            failures += bad
        if n_bad_total:
            ctx.count('bulk_failing_cases', n_bad_total)
        ctx.extra['bulk_s'] = round(time.time() - t0, 1)
        ctx.exhaustive = not ctx.quick
        for k, out, model, spec in sorted(failures)[:60]:
            c = decode(k)
            if out != model:
                ctx.mismatch(c, out, model, 'check_approvals')
            if out != spec:
                ctx.violation(c, spec, out, 'review gate differs from the specification (bulk index %d)' % k)
        # 3. decoder cross-check: python decode -> explicit request == packed answer ------------
        npos = 3000
        pos = sorted(ctx.rng.randrange(lo, hi) for _ in range(npos))
        ex_ans = ctx.model.batch([encode(decode((j * STRIDE) % DOMAIN)) for j in pos])
        pk_ans = ctx.model.batch(['enum %d %d' % (j, j + 1) for j in pos])
        for j, e, p in zip(pos, ex_ans, pk_ans):
            m = ord(p) - 48
            want = '%s %d' % ('AttributeErr' if m & 4 else 'Pass' if m & 1 else 'ApprovalRequired', (m >> 1) & 1)
            if e != want:
                ctx.mismatch({'position': j}, e, want, 'decoder-crosscheck')
        ctx.count('decoder_crosscheck', npos)
        # 4. the two reduction lemmas on the implementation -------------------------------------
        t1 = time.time()
        n_base = 1900 if ctx.quick else 30000
        base = [decode(ctx.rng.randrange(DOMAIN)) for _ in range(n_base)]
        run_explicit(ctx, pool, [v for c in base for v in source_variants(c)], 'source-variants')
        run_explicit(ctx, pool, [v for c in base[:n_base // 2] for v in change_request_variants(c)],
                     'change-requester-sets')
        # 5. original render on a sample of the domain (the stub satisfies the real template path)
        run_explicit(ctx, pool, [decode(ctx.rng.randrange(DOMAIN)) for _ in range(1500 if ctx.quick else 6000)],
                     'original-render', fast=False)
        # 6. beyond the quantifier ------------------------------------------------------------
        run_explicit(ctx, pool, [beyond_domain_case(ctx.rng) for _ in range(5000 if ctx.quick else 100000)],
                     'beyond-quantifier')
        ctx.extra['explicit_s'] = round(time.time() - t1, 1)
    finally:
        pool.close()
        pool.join()
        gwf.setup({})


def replay(ctx, data):
    if 'history' in data['input']:
        _run(ctx, [])
        run_system(ctx, replay_history=data['input']['history'])
        return
    run(ctx, [data['input']])
