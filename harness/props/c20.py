"""C20 - branch and queue admin jobs keep the repository well-formed or do nothing.

PROVE  coq/Properties/C20.v over Model/AdminJobs.v (decision logic of create_branch, delete_branch, delete_queues,
       rebuild_queues and the guard of force_merge_queues as pure functions over a repository view: heads, tags,
       commit DAG of Model/Git.v, the QueueCollection view) against Spec/C20Spec.v.
GEN    Facts_C20.v: the archive-tag suffix of hotfix branches (as delete_branch writes it and as create_branch
       looks for it), the ".0" start tag suffix, the 'stabilization/%s', 'q/%s', 'development/%s.%s' formats, the
       formats of queue_destination, whether delete_branch also compares stabilization branches by number, the
       "q/" prefixes of the queue jobs, the table of raise sites of the five handlers (exception class per
       `raise`, in source order) read from the AST; the kinds of the four outcome classes read from the live
       classes; the two API regex literals (tripwires, probed against a regex-free grammar on every run).
CORR   system level (harness/lib/sysworld.py: mock host + real git): for cascades of a small family x every
       request the API grammar accepts relative to the existing branches x branch_from x queues on/off x 0-2
       queued pull requests, the real job is run and compared with the extracted model: outcome class, the
       raise site (ordinal of the `raise` statement that ended the job, captured by a patched JobFailure
       constructor - never message text), the remote operations in order, refs and tags afterwards (commit
       identity through the sha <-> cid table of the scenario) and the pending jobs.
Monitors (harness/lib/mon_c20.py), independent of the model: inclusion and cascade rules on the real remote
       after a successful create (real BranchCascade on a fresh clone included), archive tag / queued data /
       live stabilization after a successful delete, remote untouched after a refusal, only q/* removed and the
       queued pull requests re-submitted in queue order by the queue jobs.
"""
import ast
import glob
import json
import os
import time
import traceback
from multiprocessing import get_context

from lib import core
from lib.coqgen import coq_str, coq_list

ID = 'C20'
COQ_CONE = ['Properties/C20.v']
EXTRACT = 'Extract/C20Extract.v'
DRIVER = 'ocaml/C20_driver.ml'
ASSUMPTIONS = [
    'no third party writes to the remote while an admin job runs (C08 covers interference); remote operations '
    'fail only where the scenario injects a rejection',
    'q/* branches exist only when queues are enabled (reachable states of one configuration)',
    'branch names are ASCII; the requested names are those of the API grammar plus a malformed stream that is '
    'compared with the model only',
    'the QueueCollection view (versions, master queue, pull request ids newest first) is computed by the harness '
    'from the refs and real git ancestry, independently of Bert-E; its coherence hypotheses are evaluated by the '
    'extracted checker on every real state',
]
TRUSTED = ['modelled by hand: Model/AdminJobs.v (order of the checks of the five handlers, BranchCascade '
           'build/validate restricted to what the admin jobs use, queued_prs / has_version_queued_prs); '
           'Model/Names.v (C18) for name classification; Model/Git.v for ancestry',
           'harness/lib/mon_c20.py re-implements the property monitors in Python over real git']

HANDLERS = [('create_branch', 'bert_e/jobs/create_branch.py', ['create_branch']),
            ('delete_branch', 'bert_e/jobs/delete_branch.py', ['do_delete', 'delete_branch']),
            ('delete_queues', 'bert_e/jobs/delete_queues.py', ['delete_queues']),
            ('rebuild_queues', 'bert_e/jobs/rebuild_queues.py', ['rebuild_queues']),
            ('force_merge_queues', 'bert_e/jobs/force_merge_queues.py', ['force_merge_queues'])]


# ------------------------------------------------------------------------------------------ GEN

def _funcs(tree, names):
    out = []
    for node in tree.body:
        if isinstance(node, ast.FunctionDef) and node.name in names:
            out.append(node)
    if sorted(f.name for f in out) != sorted(names):
        raise ValueError('functions %s not found' % names)
    return sorted(out, key=lambda f: f.lineno)


def _raise_class(node):
    exc = node.exc
    if exc is None:
        raise ValueError('bare raise in a handler')
    call = exc.func if isinstance(exc, ast.Call) else exc
    if isinstance(call, ast.Attribute):
        return call.attr
    if isinstance(call, ast.Name):
        return call.id
    raise ValueError('unexpected raise: ' + ast.dump(node)[:100])


def raise_sites(repo=None):
    """handler -> [(lineno, exception class)] in source order (the ordinal of a site is its index)."""
    repo = repo or core.REPO
    res = {}
    for key, rel, fnames in HANDLERS:
        tree = ast.parse(open(os.path.join(repo, rel)).read())
        sites = []
        for fn in _funcs(tree, fnames):
            for node in ast.walk(fn):
                if isinstance(node, ast.Raise):
                    sites.append((node.lineno, _raise_class(node)))
        res[key] = sorted(sites)
    return res


def _str_consts(fn):
    return [n.value for n in ast.walk(fn) if isinstance(n, ast.Constant) and isinstance(n.value, str)]


def _one(cands, what):
    cands = sorted(set(cands))
    if len(cands) != 1:
        raise ValueError('expected exactly one %s, found %r' % (what, cands))
    return cands[0]


def gen_facts(ctx):
    src = {k: open(os.path.join(core.REPO, rel)).read() for k, rel, _ in HANDLERS}
    trees = {k: ast.parse(s) for k, s in src.items()}
    create = _funcs(trees['create_branch'], ['create_branch'])[0]
    delete = _funcs(trees['delete_branch'], ['delete_branch'])[0]
    rebuild = _funcs(trees['rebuild_queues'], ['rebuild_queues'])[0]
    delq = _funcs(trees['delete_queues'], ['delete_queues'])[0]
    # archive tag of a hotfix branch: archive_tag = archive_tag + '<suffix>'
    sufs = []
    for n in ast.walk(delete):
        if (isinstance(n, ast.Assign) and len(n.targets) == 1 and getattr(n.targets[0], 'id', '') == 'archive_tag'
                and isinstance(n.value, ast.BinOp) and isinstance(n.value.op, ast.Add)
                and getattr(n.value.left, 'id', '') == 'archive_tag' and isinstance(n.value.right, ast.Constant)):
            sufs.append(n.value.right.value)
    archive_suffix = _one(sufs, 'archive tag suffix')
    # plain archive tag: archive_tag = del_branch.version
    plain = [n for n in ast.walk(delete) if isinstance(n, ast.Assign) and len(n.targets) == 1
             and getattr(n.targets[0], 'id', '') == 'archive_tag' and isinstance(n.value, ast.Attribute)
             and n.value.attr == 'version' and getattr(n.value.value, 'id', '') == 'del_branch']
    if len(plain) != 1:
        raise ValueError('archive_tag = del_branch.version not found')
    # hotfix start tag: new_branch.version + '<suffix>'
    starts = []
    for n in ast.walk(create):
        if (isinstance(n, ast.BinOp) and isinstance(n.op, ast.Add) and isinstance(n.left, ast.Attribute)
                and n.left.attr == 'version' and isinstance(n.right, ast.Constant)):
            starts.append(n.right.value)
    start_suffix = _one(starts, 'hotfix start tag suffix')
    stab_fmt = _one([s for s in _str_consts(delete) if s.startswith('stabilization/')], 'stabilization prefix format')
    q_fmt = _one([s for s in _str_consts(delete) if s.startswith('q/')], 'queue name format')
    dev_fmt = _one([s for s in _str_consts(create) if s.startswith('development/')], 'supporting development format')
    for f, n in ((stab_fmt, 1), (q_fmt, 1), (dev_fmt, 2)):
        if f.count('%s') != n or '%' in f.replace('%s', ''):
            raise ValueError('unexpected format %r' % f)
    if not stab_fmt.endswith('%s') or not q_fmt.endswith('%s'):
        raise ValueError('format does not end with %s')
    qpref = []
    for fn in (rebuild, delq):
        lits = []
        for n in ast.walk(fn):
            if (isinstance(n, ast.Call) and isinstance(n.func, ast.Attribute) and n.func.attr == 'startswith'
                    and len(n.args) == 1 and isinstance(n.args[0], ast.Constant)):
                lits.append(n.args[0].value)
        qpref.append(_one(lits, 'queue prefix in ' + fn.name))
    # create_branch: archive_tag + '<suffix>' for a hotfix branch (must be the tag delete_branch leaves)
    csufs = []
    for n in ast.walk(create):
        if (isinstance(n, ast.BinOp) and isinstance(n.op, ast.Add) and getattr(n.left, 'id', '') == 'archive_tag'
                and isinstance(n.right, ast.Constant) and isinstance(n.right.value, str)):
            csufs.append(n.right.value)
    create_suffix = _one(csufs, 'archive tag suffix looked for by create_branch')
    # queue jobs: both check out queue_destination(repo, queue_branches[0])
    qd = _funcs(trees['rebuild_queues'], ['queue_destination'])[0]
    doc = ast.get_docstring(qd)
    qd_formats = [c for c in _str_consts(qd) if c != doc]
    for fn in (rebuild, delq):
        calls = [n for n in ast.walk(fn) if isinstance(n, ast.Call) and getattr(n.func, 'id', '') == 'queue_destination']
        if len(calls) != 1:
            raise ValueError('%s does not call queue_destination exactly once' % fn.name)
    # delete_branch: the stabilization test also compares major and minor as numbers
    iso = _funcs(trees['delete_branch'], ['is_stabilization_of'])[0]
    attrs = sorted(set(n.attr for n in ast.walk(iso) if isinstance(n, ast.Attribute) and n.attr in ('major', 'minor', 'micro')))
    insts = [n.args[1].id for n in ast.walk(iso) if isinstance(n, ast.Call) and getattr(n.func, 'id', '') == 'isinstance'
             and isinstance(n.args[1], ast.Name)]
    if attrs != ['major', 'minor'] or insts != ['StabilizationBranch']:
        raise ValueError('unexpected shape of is_stabilization_of: %r %r' % (attrs, insts))
    stab_numeric = any(isinstance(n, ast.Call) and getattr(n.func, 'id', '') == 'is_stabilization_of'
                       for n in ast.walk(delete))
    # create_branch: names whose numbers are not written canonically are refused (when the helper is there)
    canon = [f for f in trees['create_branch'].body if isinstance(f, ast.FunctionDef) and f.name == 'is_canonical_version']
    requires_canonical = False
    if canon:
        src_c = ast.unparse(canon[0].body[-1])
        if src_c != "return all((part == str(int(part)) for part in version.split('.')))":
            raise ValueError('unexpected shape of is_canonical_version: ' + src_c)
        calls = [n for n in ast.walk(create) if isinstance(n, ast.Call) and getattr(n.func, 'id', '') == 'is_canonical_version']
        if len(calls) != 1 or ast.unparse(calls[0].args[0]) != 'new_branch.version':
            raise ValueError('unexpected use of is_canonical_version')
        requires_canonical = True
    sites = raise_sites()
    from bert_e import exceptions as ex
    kinds = []
    for cls in ('NothingToDo', 'JobFailure', 'JobSuccess', 'NotMyJob'):
        c = getattr(ex, cls)
        kinds.append((cls, 'silent' if issubclass(c, ex.SilentException) else
                      'template' if issubclass(c, ex.TemplateException) else
                      'internal' if issubclass(c, ex.InternalException) else 'other'))
    import bert_e.server.api.gwf.branches as api
    from bert_e.jobs.create_branch import CreateBranchJob
    from bert_e.jobs.delete_branch import DeleteBranchJob
    if api.CreateBranch.job is not CreateBranchJob or api.DeleteBranch.job is not DeleteBranchJob:
        raise ValueError('API endpoints are not bound to the expected job classes')
    text = '''(* GENERATED on every run by harness/props/c20.py from %s - do not edit *)
From Coq Require Import List String.
Import ListNotations.
Open Scope string_scope.
(* delete_branch: archive_tag = del_branch.version [+ suffix for a hotfix branch] *)
Definition archive_hotfix_suffix : string := %s.
(* create_branch: a hotfix branch starts from the tag new_branch.version + suffix *)
Definition hotfix_start_suffix : string := %s.
(* formats; *_head is the text before the single trailing %%s *)
Definition stab_prefix_format : string := %s.
Definition stab_prefix_head : string := %s.
Definition queue_name_format : string := %s.
Definition queue_name_head : string := %s.
Definition supporting_dev_format : string := %s.
(* create_branch: suffix of the archive tag it looks for when the new branch is a hotfix branch *)
Definition create_archive_hotfix_suffix : string := %s.
(* queue_destination (rebuild_queues.py), called by rebuild_queues and delete_queues: hfrev / micro / else *)
Definition queue_destination_formats : list string := %s.
(* delete_branch: any(b.startswith(prefix) or is_stabilization_of(repo, b, del_branch)) *)
Definition delete_stab_numeric : bool := %s.
(* create_branch: `or not is_canonical_version(new_branch.version)` in the destination-branch test *)
Definition create_requires_canonical : bool := %s.
(* b.startswith(...) in rebuild_queues, delete_queues *)
Definition queue_scan_prefixes : list string := %s.
(* exception class of every `raise` of each handler, in source order *)
Definition raise_sites : list (string * list string) := %s.
(* kind of the four outcome classes *)
Definition outcome_kinds : list (string * string) := %s.
(* TRIPWIRES - regex literals of the API grammar; no proof depends on them *)
Definition api_branch_regexp : string := %s.
Definition api_branch_from_regexp : string := %s.
''' % (core.REPO, coq_str(archive_suffix), coq_str(start_suffix), coq_str(stab_fmt), coq_str(stab_fmt[:-2]),
       coq_str(q_fmt), coq_str(q_fmt[:-2]), coq_str(dev_fmt), coq_str(create_suffix),
       coq_list(map(coq_str, qd_formats)), 'true' if stab_numeric else 'false',
       'true' if requires_canonical else 'false', coq_list(map(coq_str, qpref)),
       coq_list('(%s, %s)' % (coq_str(k), coq_list(coq_str(c) for _, c in sites[k])) for k, _, _ in HANDLERS),
       coq_list('(%s, %s)' % (coq_str(a), coq_str(b)) for a, b in kinds),
       coq_str(api.BRANCH_REGEXP), coq_str(api.BRANCH_FROM_REGEXP))
    return {'Generated/Facts_C20.v': text}


# ------------------------------------------------------------------------------------------ scenarios

LAYOUTS = {
    'plain': [[4, 3, None, []], [5, 1, None, []], [10, 0, None, []]],
    'stab': [[4, 3, 18, []], [5, 1, 4, []], [10, 0, None, []]],
    'hotfix': [[4, 3, None, [17]], [5, 1, None, []]],
    'major': [[4, 3, None, []], [5, 1, None, []], [5, None, None, []]],
    'mixed': [[4, 3, 18, [16]], [5, 1, 4, []], [10, None, None, []]],
    'single': [[4, 3, None, []]],
}

# how the pull requests of a world are queued before the request: (source, destination) in queue order
QUEUE_SETUPS = {
    'plain': [[], [['bugfix/TEST-1', 'development/4.3']],
              [['bugfix/TEST-1', 'development/5.1'], ['feature/TEST-2', 'development/4.3']]],
    'stab': [[], [['bugfix/TEST-1', 'stabilization/5.1.4']],
             [['bugfix/TEST-1', 'development/10.0'], ['bugfix/TEST-2', 'stabilization/4.3.18']]],
    'hotfix': [[], [['bugfix/TEST-1', 'hotfix/4.3.17']],
               [['bugfix/TEST-1', 'development/5.1'], ['bugfix/TEST-2', 'hotfix/4.3.17']],
               [['bugfix/TEST-1', 'hotfix/4.3.17'], ['bugfix/TEST-2', 'development/4.3']]],
    'major': [[], [['bugfix/TEST-1', 'development/5.1']]],
    'mixed': [[], [['bugfix/TEST-1', 'hotfix/4.3.16'], ['bugfix/TEST-2', 'development/5.1']]],
    'single': [[], [['bugfix/TEST-1', 'development/4.3']]],
}

# three pull requests opened first (ids 1, 2, 3) and queued in the given order of indices: the queue order differs
# from the id order; in the hotfix layout the hotfix pull request has the highest id (queued_prs lists it first)
THREE = {
    'plain': ([['bugfix/TEST-1', 'development/4.3'], ['feature/TEST-2', 'development/5.1'],
               ['improvement/TEST-3', 'development/4.3']],
              [[0, 1, 2], [0, 2, 1], [1, 0, 2], [1, 2, 0], [2, 0, 1], [2, 1, 0]]),
    'hotfix': ([['bugfix/TEST-1', 'development/4.3'], ['feature/TEST-2', 'development/5.1'],
                ['bugfix/TEST-3', 'hotfix/4.3.17']],
               [[0, 1, 2], [2, 0, 1], [1, 0, 2], [1, 2, 0]]),
    'stab': ([['bugfix/TEST-1', 'development/10.0'], ['bugfix/TEST-2', 'stabilization/4.3.18'],
              ['feature/TEST-3', 'development/5.1']],
             [[2, 0, 1], [1, 2, 0], [2, 1, 0]]),
}

# admin jobs run before the request (archived = created-then-deleted, non-canonical spellings, merged queues)
PRE_STEPS = {
    'none': [],
    'archived_dev': [{'s': 'job', 'kind': 'create_branch', 'args': {'branch': 'development/4.4'}},
                     {'s': 'job', 'kind': 'delete_branch', 'args': {'branch': 'development/4.4'}}],
    'archived_hotfix': [{'s': 'job', 'kind': 'delete_branch', 'args': {'branch': 'hotfix/4.3.17'}}],
    'archived_stab': [{'s': 'job', 'kind': 'create_branch', 'args': {'branch': 'stabilization/5.1.0'}},
                      {'s': 'job', 'kind': 'delete_branch', 'args': {'branch': 'stabilization/5.1.0'}}],
    'leading_zero_stab': [{'s': 'job', 'kind': 'create_branch', 'args': {'branch': 'stabilization/05.1.0'}}],
    'long_minor': [{'s': 'job', 'kind': 'create_branch', 'args': {'branch': 'development/4.30'}},
                   {'s': 'job', 'kind': 'create_branch', 'args': {'branch': 'stabilization/4.30.0'}}],
    'merged_queue': [{'s': 'merge_queue'}],
    # the archive tag is already there: on the tip of the branch (an interrupted delete-branch: resumed) or elsewhere
    'tagged_tip': [{'s': 'tag', 'tag': '5.1', 'ref': 'development/5.1'}],
    'tagged_elsewhere': [{'s': 'tag', 'tag': '5.1', 'ref': 'development/4.3'}],
    'hotfix_tagged_tip': [{'s': 'tag', 'tag': '4.3.17.archived_hotfix_branch', 'ref': 'hotfix/4.3.17'}],
}


def worlds(ctx):
    """The family of worlds: layout x queues on/off x queued pull requests x preliminary admin jobs."""
    res = []
    for lay in ('plain', 'stab', 'hotfix', 'major', 'mixed', 'single'):
        for uq in (True, False):
            setups = QUEUE_SETUPS[lay] if uq else [[]]
            for qi, queued in enumerate(setups):
                pres = ['none']
                if lay == 'plain':
                    pres += ['archived_dev', 'archived_stab', 'leading_zero_stab', 'long_minor']
                    if uq and queued:
                        pres += ['merged_queue']
                    if not queued:
                        pres += ['tagged_tip', 'tagged_elsewhere']
                if lay == 'hotfix':
                    pres += ['archived_hotfix']
                    if not queued:
                        pres += ['hotfix_tagged_tip']
                for pre in pres:
                    if pre == 'archived_hotfix' and any(d == 'hotfix/4.3.17' for _, d in queued):
                        continue
                    if pre == 'merged_queue':
                        steps = [{'s': 'queue_pr', 'src': s, 'dst': d} for s, d in queued] + PRE_STEPS[pre]
                        order = []
                    else:
                        steps = PRE_STEPS[pre] + [{'s': 'queue_pr', 'src': s, 'dst': d} for s, d in queued]
                        order = list(range(1, len(queued) + 1))
                    steps = [{'s': 'feature', 'branch': 'feature/outside', 'from': LAYOUT_FIRST_DEV[lay]}] + steps
                    res.append({'id': '%s|%s|q%d|%s' % (lay, 'queue' if uq else 'noqueue', qi, pre),
                                'cfg': {'layout': LAYOUTS[lay], 'use_queue': uq, 'skip_queue': False},
                                'setup': steps, 'layout': lay, 'pre': pre, 'nq': len(queued)})
    for lay, (prs, perms) in THREE.items():
        for perm in perms:
            steps = [{'s': 'feature', 'branch': 'feature/outside', 'from': LAYOUT_FIRST_DEV[lay]}] + \
                [{'s': 'open_pr', 'src': a, 'dst': b} for a, b in prs] + [{'s': 'queue_open', 'i': i} for i in perm]
            res.append({'id': '%s|queue|three%s|none' % (lay, ''.join(str(i + 1) for i in perm)),
                        'cfg': {'layout': LAYOUTS[lay], 'use_queue': True, 'skip_queue': False},
                        'setup': steps, 'layout': lay, 'pre': 'none', 'nq': 3, 'perm': perm})
    return res


LAYOUT_FIRST_DEV = {k: 'development/%d.%d' % (v[0][0], v[0][1]) for k, v in LAYOUTS.items()}


def requests_for(refs, tags, use_queue):
    """Every request shape of the quantifier, relative to the existing destination branches."""
    from lib import mon_c20 as mc
    dests = [(n, mc.parse_dest(n)) for n in sorted(refs)]
    dests = [(n, d) for n, d in dests if d]
    devs = sorted([(mc.line_key(d[1], d[2]), n, d) for n, d in dests if d[0] == 'dev'])
    reqs = []
    names = []
    if devs:
        lo, hi = devs[0][2], devs[-1][2]
        names.append(('older', 'development/%d.%d' % ((lo[1], lo[2] - 1) if lo[2] else (lo[1] - 1, 9))))
        names.append(('newer', 'development/%d.0' % (hi[1] + 1)))
        for (_, _, a), (_, _, b) in zip(devs, devs[1:]):
            if a[2] is not None:
                names.append(('between', 'development/%d.%d' % (a[1], a[2] + 1)))
        names.append(('between-major', 'development/%d.0' % (lo[1] + 1 if lo[1] + 1 != hi[1] else lo[1] + 2)))
        for _, n, d in devs:
            names.append(('existing', n))
            if d[2] is not None:
                rel = [-1] + [int(t.split('.')[2]) for t in tags
                              if re_match_tag(t) and t.lstrip('v').split('.')[:2] == [str(d[1]), str(d[2])]]
                names.append(('stab-next', 'stabilization/%d.%d.%d' % (d[1], d[2], max(rel) + 1)))
                names.append(('stab-wrong', 'stabilization/%d.%d.%d' % (d[1], d[2], max(rel) + 3)))
                names.append(('stab-skip', 'stabilization/%d.%d.%d' % (d[1], d[2], max(rel) + 2)))
                if max(rel) >= 0:
                    names.append(('stab-released', 'stabilization/%d.%d.%d' % (d[1], d[2], max(rel))))
        names.append(('stab-orphan', 'stabilization/%d.%d.0' % (hi[1] + 2, 7)))
        names.append(('stab-zero', 'stabilization/0%d.%d.0' % (lo[1], lo[2] or 0)))
    else:
        names += [('older', 'development/1.0'), ('stab-orphan', 'stabilization/1.0.0')]
    for n, d in dests:
        if d[0] != 'dev':
            names.append(('existing', n))
    for t in sorted(tags):
        parts = t.split('.')
        if t.endswith('.archived_hotfix_branch'):
            names.append(('archived', 'hotfix/' + t[:-len('.archived_hotfix_branch')]))
        elif all(p.isdigit() for p in parts):
            if len(parts) == 2:
                names.append(('archived', 'development/' + t))
            elif len(parts) == 3:
                names.append(('archived', 'stabilization/' + t))
                names.append(('hotfix-release-tag', 'hotfix/' + t))
            elif len(parts) == 4 and parts[3] == '0':
                names.append(('hotfix', 'hotfix/' + '.'.join(parts[:3])))
    names.append(('hotfix-notag', 'hotfix/9.9.9'))
    seen = set()
    for shape, n in names:
        if n in seen:
            continue
        seen.add(n)
        bfs = [{'t': 'none'}]
        if not (shape in ('existing',) and n in refs):
            if devs:
                bfs += [{'t': 'branch', 'ref': devs[0][1]}, {'t': 'branch', 'ref': devs[-1][1]},
                        {'t': 'tip', 'ref': devs[-1][1]}, {'t': 'parent', 'ref': devs[-1][1]},
                        {'t': 'tip', 'ref': 'feature/outside'}, {'t': 'unknown'},
                        {'t': 'branch', 'ref': 'development/77.7'}]
                if len(devs) > 1:
                    bfs += [{'t': 'tip', 'ref': devs[len(devs) // 2][1]}]
        for bf in bfs:
            reqs.append({'kind': 'create_branch', 'branch': n, 'bf': bf, 'shape': shape})
        reqs.append({'kind': 'delete_branch', 'branch': n, 'shape': shape})
    for k in ('rebuild_queues', 'delete_queues'):
        reqs.append({'kind': k, 'shape': 'queues'})
    if not use_queue:
        reqs.append({'kind': 'force_merge_queues', 'shape': 'queues'})
    # malformed stream: names the API grammar rejects (compared with the model only)
    for n in ('development/11', 'release/5.1', 'feature/x', 'nonsense', 'q/4.3', 'hotfix/abc', 'user/x',
              'w/5.1/feature/x', 'development/5.1.0', 'stabilization/5.1'):
        reqs.append({'kind': 'create_branch', 'branch': n, 'bf': {'t': 'none'}, 'shape': 'malformed'})
        reqs.append({'kind': 'delete_branch', 'branch': n, 'shape': 'malformed'})
    return reqs


def re_match_tag(t):
    import re
    return bool(re.match(r'^v?\d+\.\d+\.\d+(\.\d+)?$', t)) and '\n' not in t


def api_accepts(name):
    import re
    import bert_e.server.api.gwf.branches as api
    return bool(re.match(api.BRANCH_REGEXP, name))


def api_accepts_from(bf):
    import re
    import bert_e.server.api.gwf.branches as api
    return bool(re.match(api.BRANCH_FROM_REGEXP, bf))


# ------------------------------------------------------------------------------------------ one world

def _queue_pr(world, src, dst):
    pr = world.apply({'e': 'create_pr', 'src': src, 'dst': dst})['pr']
    world.run_job({'e': 'job_pr', 'pr': pr})
    refs = world.refs()
    for n in refs:
        if n == src or (n.startswith('w/') and n.endswith('/' + src)):
            world.apply({'e': 'build', 'ref': n, 'state': 'SUCCESSFUL'})
    st = world.run_job({'e': 'job_pr', 'pr': pr})['status']
    if st != 'Queued':
        raise RuntimeError('could not queue %s -> %s: %s' % (src, dst, st))
    return pr


def _drive_to_queue(world, pr, src):
    world.run_job({'e': 'job_pr', 'pr': pr})
    refs = world.refs()
    for n in refs:
        if n == src or (n.startswith('w/') and n.endswith('/' + src)):
            world.apply({'e': 'build', 'ref': n, 'state': 'SUCCESSFUL'})
    st = world.run_job({'e': 'job_pr', 'pr': pr})['status']
    if st != 'Queued':
        raise RuntimeError('could not queue pull request %d (%s): %s' % (pr, src, st))
    world._c20_qorder.append(pr)


def queue_order_of(world, refs):
    """The pull requests still queued, in the order in which the scenario queued them (the ground truth)."""
    return [p for p in getattr(world, '_c20_qorder', []) if any(n.startswith('q/w/%d/' % p) for n in refs)]


def run_setup(world, steps):
    if not hasattr(world, '_c20_qorder'):
        world._c20_qorder, world._c20_open = [], []
    for s in steps:
        if s['s'] == 'queue_pr':
            world._c20_qorder.append(_queue_pr(world, s['src'], s['dst']))
        elif s['s'] == 'open_pr':
            # the pull request gets its id now; it is queued later, possibly after pull requests with higher ids
            world._c20_open.append((world.apply({'e': 'create_pr', 'src': s['src'], 'dst': s['dst']})['pr'], s['src']))
        elif s['s'] == 'queue_open':
            pr, src = world._c20_open[s['i']]
            _drive_to_queue(world, pr, src)
        elif s['s'] == 'tag':
            world.ugit('fetch', '-q', 'origin')
            world.ugit('tag', s['tag'], 'origin/' + s['ref'])
            world.ugit('push', '-q', 'origin', s['tag'])
        elif s['s'] == 'job':
            world.run_job({'e': 'job_api', 'kind': s['kind'], 'args': s['args']})
            world.drain()
        elif s['s'] == 'feature':
            world.apply({'e': 'new_branch', 'branch': s['branch'], 'from': s['from'], 'label': 'outside'})
        elif s['s'] == 'merge_queue':
            refs = world.refs()
            q = sorted(n for n in refs if n.startswith('q/w/'))
            for n in q:
                world.apply({'e': 'build', 'ref': n, 'state': 'SUCCESSFUL'})
            if q:
                world.run_job({'e': 'job_commit', 'ref': q[-1]})
        else:
            raise ValueError(s)


def resolve_bf(world, refs, bf):
    """-> (settings value or None, model encoding)."""
    from lib import mon_c20 as mc
    t = bf['t']
    if t == 'none':
        return None, 'N', None
    if t == 'branch':
        return bf['ref'], 'B' + mc.hx(bf['ref']), None
    if t == 'unknown':
        return 'abcdef0123', 'C-', None
    sha = refs.get(bf['ref'])
    if sha is None:
        return 'abcdef0123', 'C-', None
    if t == 'parent':
        g = world.graph()
        ps = g[sha][0]
        sha = ps[0] if ps else sha
    return sha, None, sha


def install_site_probe(world):
    """Remember the exception that ends BertE.process so that the raise site can be read from its traceback."""
    cls = world.BertE
    if getattr(cls, '_c20_probe', False):
        return
    orig = cls.process

    def process(self, job):
        try:
            return orig(self, job)
        except BaseException as e:
            self._c20_exc = e
            raise
    cls.process = process
    cls._c20_probe = True


def site_of(exc, sites):
    """(handler, ordinal) of the deepest frame of the traceback that is a raise statement of a handler."""
    res = None
    tb = exc.__traceback__ if exc is not None else None
    while tb is not None:
        fn = tb.tb_frame.f_code.co_filename.replace('\\', '/')
        for key, rel, _ in HANDLERS:
            if fn.endswith(rel):
                lines = [ln for ln, _ in sites[key]]
                if tb.tb_lineno in lines:
                    res = '%s:%d' % (key, lines.index(tb.tb_lineno))
        tb = tb.tb_next
    return res


KIND_JOB = {'create_branch': 'create', 'delete_branch': 'delete', 'rebuild_queues': 'rebuild',
            'delete_queues': 'delete_queues', 'force_merge_queues': 'force_merge'}


def model_site(req, ans, chained):
    """The raise site the model predicts, as '<handler>:<ordinal>'."""
    w = ans.split(' ')
    cls, site, muts = w[0], w[1], w[3][5:]
    k = req['kind']
    if cls == 'Crashed':
        return None
    if k in ('create_branch', 'delete_branch'):
        if k == 'create_branch' and chained:
            return 'rebuild_queues:%d' % (2 if 'A:' in muts else 1)
        return '%s:%s' % (k, site)
    if k in ('rebuild_queues', 'delete_queues'):
        return '%s:%d' % (k, 0 if cls == 'NotMyJob' else (2 if 'A:' in muts else 1))
    return 'force_merge_queues:0' if cls == 'NotMyJob' else None


def ops_of_model(ans):
    """Model mutations -> the remote operations and enqueued ids they stand for."""
    from lib import mon_c20 as mc
    muts = ans.split(' ')[3][5:]
    ops, enq = [], []
    for m in ([] if muts == '-' else muts.split(';')):
        p = m.split(':')
        if p[0] == 'PN':
            ops.append(['push', bytes.fromhex(p[1]).decode()])
        elif p[0] == 'D':
            ops.append(['push', ':' + bytes.fromhex(p[1]).decode()])
        elif p[0] == 'T':
            ops.append(['pushtag', bytes.fromhex(p[1]).decode()])
        elif p[0] == 'A':
            ops.append(['push_all', sorted(bytes.fromhex(x).decode() for x in p[1].split(',') if x)])
        elif p[0] == 'E':
            enq.append(int(p[1]))
    return ops, enq


def ops_of_impl(rec):
    import re
    ops = []
    pa = [t for t in rec['trace'] if t['op'] == 'push_all']
    for o in rec['ops']:
        if not o.get('ok'):
            continue
        if o['kind'] == 'push':
            for n in o['detail']:
                ops.append(['push', n])
        elif o['kind'] == 'rawpush':
            m = re.match(r'^git push origin (\S+)$', o['detail'])
            ops.append(['pushtag', m.group(1)] if m else ['rawpush', o['detail']])
        elif o['kind'] == 'push_all':
            t = pa.pop(0) if pa else {}
            ops.append(['push_all', sorted(t.get('deleted', []))])
    return ops


def decode_refs(field, view):
    if field == '-':
        return {}
    res = {}
    for e in field.split(','):
        n, c = e.split(':')
        res[bytes.fromhex(n).decode()] = view['order'][int(c)]
    return res


def evaluate(world, model, wspec, req, sites, queue_order, out, fault=None):
    """Run one request on the real system from the current state and compare with model and monitors."""
    from lib import mon_c20 as mc
    before = world.dump()
    view = mc.view_of(world, before)
    venc = mc.encode_view(view)
    uq = world.cfg['use_queue']
    args = {}
    bfenc = 'N'
    if 'branch' in req:
        args['branch'] = req['branch']
    if req['kind'] == 'create_branch':
        val, enc, sha = resolve_bf(world, before['refs'], req['bf'])
        if val is not None:
            args['branch_from'] = val
        bfenc = enc if enc else ('C%d' % view['cid'][sha] if sha in view['cid'] else 'C-')
    fails = '-'
    wfault = None
    if fault is not None:
        fails = str(fault['op'])
        wfault = {'mode': 'reject', 'at': fault['op'], 'ref': fault['ref']}
    line = 'job=%s uq=%d fails=%s %s name=%s bf=%s' % (KIND_JOB[req['kind']], uq, fails, venc,
                                                       mc.hx(req.get('branch', '')) or '-', bfenc)
    ans = model.batch([line])[0]
    ev = {'e': 'job_api', 'kind': req['kind'], 'args': args}
    world.berte._c20_exc = None
    rec = world.run_job(ev, fault=wfault)
    rec['fault'] = fault
    exc = getattr(world.berte, '_c20_exc', None)
    after = world.dump()
    out['evaluations'] += 1
    inp = {'world': wspec['id'], 'cfg': wspec['cfg'], 'setup': wspec['setup'], 'request': req, 'fault': fault}
    if ans.startswith('ERR'):
        out['mismatch'].append({'function': 'driver', 'input': inp, 'impl': rec['status'], 'model': ans})
        return
    w = ans.split(' ')
    mcls, mdetail, chk = w[0], w[2], w[6][4:]
    st = rec['status']
    icls = st if st in mc.OUTCOMES else 'Crashed'
    idetail = st if icls == 'Crashed' else '-'
    key = '%s|%s|%s' % (req['kind'], req.get('shape'), st)
    out['hist']['status:' + st] = out['hist'].get('status:' + st, 0) + 1
    out['hist']['kind:' + req['kind']] = out['hist'].get('kind:' + req['kind'], 0) + 1
    out['hist']['shape:' + str(req.get('shape'))] = out['hist'].get('shape:' + str(req.get('shape')), 0) + 1
    # hypotheses of the theorems on the real pre-state (queue view covers the heads, is coherent, lies below the
    # last development branch; tips are commits of the graph)
    if chk != '1111' and wspec.get('pre') != 'leading_zero_stab':
        out['mismatch'].append({'function': 'view hypotheses (cover, coherent, below_last, bounded)', 'input': inp,
                                'impl': chk, 'model': '1111'})
    # ---- correspondence: outcome class, raise site, remote operations, refs/tags after, pending jobs
    d = mc.parse_dest(req.get('branch', '')) if 'branch' in req else None
    chained = bool(req['kind'] == 'create_branch' and uq and d and d[0] == 'dev' and 'PN:' in w[3])
    isite = site_of(exc, sites)
    msite = model_site(req, ans, chained)
    if req['kind'] == 'force_merge_queues' and mcls != 'NotMyJob':
        return
    if icls != mcls or (mcls == 'Crashed' and mdetail != idetail):
        out['mismatch'].append({'function': 'outcome', 'input': inp, 'impl': [st, isite], 'model': w[:3]})
    elif mcls != 'Crashed' and isite != msite:
        out['mismatch'].append({'function': 'raise site', 'input': inp, 'impl': [st, isite], 'model': [mcls, msite, mdetail]})
    elif mcls == 'JobFailure' and mdetail.startswith('RNotConform:') and \
            '(%s)' % mdetail.split(':')[1] not in (rec.get('details') or ''):
        out['mismatch'].append({'function': 'cascade error class', 'input': inp, 'impl': rec.get('details'),
                                'model': mdetail})
    mops, menq = ops_of_model(ans)
    iops = ops_of_impl(rec)
    if mops != iops:
        out['mismatch'].append({'function': 'remote operations', 'input': inp, 'impl': iops, 'model': mops})
    mrefs, mtags = decode_refs(w[4][6:], view), decode_refs(w[5][5:], view)
    if mrefs != after['refs']:
        diff = sorted(n for n in set(mrefs) | set(after['refs']) if mrefs.get(n) != after['refs'].get(n))
        out['mismatch'].append({'function': 'refs after', 'input': inp, 'impl': {n: after['refs'].get(n) for n in diff},
                                'model': {n: mrefs.get(n) for n in diff}})
    if mtags != {t: s for t, s in after['tags'].items()}:
        out['mismatch'].append({'function': 'tags after', 'input': inp, 'impl': after['tags'], 'model': mtags})
    ipend = after['pending'][len(before['pending']):]
    if ipend != ['Webhook for pull request #%d' % p for p in menq]:
        out['mismatch'].append({'function': 'pending jobs', 'input': inp, 'impl': ipend, 'model': menq})
    if (req['kind'] == 'rebuild_queues' or chained) and chk == '1111':
        # the model's queued_prs against the order in which the scenario queued the pull requests, inside every
        # queue version (hotfix pull requests come first in queued_prs whatever their age)
        mq = [] if w[7][5:] == '-' else [int(x) for x in w[7][5:].split('.')]
        for e in view['queues']:
            known = [p for p in queue_order if p in e['prs']]
            if [p for p in mq if p in known] != known:
                out['mismatch'].append({'function': 'queued_prs vs the order the pull requests were queued in',
                                        'input': inp, 'impl': known, 'model': mq})
        if sorted(mq) != sorted(queue_order):
            out['mismatch'].append({'function': 'queued_prs vs the set of queued pull requests', 'input': inp,
                                    'impl': queue_order, 'model': mq})
    # ---- monitors of the statement on the real system (inputs inside the quantifier only)
    inside = True
    if 'branch' in req:
        inside = api_accepts(req['branch'])
        if req['kind'] == 'create_branch' and 'branch_from' in args:
            inside = inside and api_accepts_from(args['branch_from'])
    if inside:
        vs = []
        if req['kind'] == 'create_branch':
            vs += mc.mon_create(world, ev, before, rec, after)
            if chained:
                vs += mc.mon_queues(world, {'kind': 'rebuild_queues'},
                                    dict(before, refs=dict(before['refs'], **{req['branch']: after['refs'].get(req['branch'])})),
                                    rec, after, queue_order)
        elif req['kind'] == 'delete_branch':
            vs += mc.mon_delete(world, ev, before, rec, after)
        elif req['kind'] in ('rebuild_queues', 'delete_queues'):
            vs += mc.mon_queues(world, ev, before, rec, after, queue_order)
        vs += mc.mon_refusal(world, ev, before, rec, after)
        if fault is not None:
            # a refused remote operation is outside the quantifier of C20: counted, compared with the model only
            for v in vs:
                out['hist']['under_fault:' + v['key']] = out['hist'].get('under_fault:' + v['key'], 0) + 1
            vs = []
        for v in vs:
            out['violations'].append({'input': inp, 'detail': v})
    if st == 'JobSuccess' or (st in mc.REFUSALS and isite not in (None, 'create_branch:0', 'delete_branch:3')):
        out['nontrivial'].append('%s|%s|%s|%s|%s|%s' % (wspec['layout'], uq, req['kind'], req.get('shape'),
                                                        (req.get('bf') or {}).get('t'), isite))
    if len(out['samples']) < 2:
        out['samples'].append({'world': wspec['id'], 'request': req, 'status': st, 'site': isite, 'model': w[:4]})
    return rec


def _worker(task):
    wspec, reqs_idx, exe, tier_budget, faults = task
    os.environ['PYTHONHASHSEED'] = '0'
    from lib import sysworld
    out = {'world': wspec['id'], 'evaluations': 0, 'mismatch': [], 'violations': [], 'hist': {}, 'nontrivial': [],
           'samples': [], 'error': None, 'wall': 0.0, 'n_requests': 0}
    t0 = time.time()
    world = None
    try:
        model = core.Model(exe)
        world = sysworld.World(wspec['cfg'])
        install_site_probe(world)
        run_setup(world, wspec['setup'])
        sites = raise_sites()
        refs, tags = world.refs(), world.tags()
        queue_order = queue_order_of(world, refs)
        reqs = requests_for(refs, tags, wspec['cfg']['use_queue'])
        out['n_requests'] = len(reqs)
        chosen = reqs if reqs_idx is None else [reqs[i % len(reqs)] for i in reqs_idx]
        if reqs_idx is not None and wspec['cfg']['use_queue'] and any(n.startswith('q/') for n in refs):
            # q/* branches on the remote: always try to delete every existing destination branch (with and without
            # a queue of its own) - the job checks q/* branches out before it tags the branch to delete
            forced = [r for r in reqs if r['kind'] == 'delete_branch' and r.get('shape') == 'existing']
            if len(queue_order) >= 2:
                # several queued pull requests: always rebuild the queues, directly and through the creation of the
                # newest development branch (re-submission order)
                forced += [r for r in reqs if r['kind'] == 'rebuild_queues' or
                           (r['kind'] == 'create_branch' and r.get('shape') == 'newer' and r['bf']['t'] == 'none')]
            chosen = chosen + [r for r in forced if r not in chosen]
        if reqs_idx is not None and str(wspec.get('pre', '')).endswith(('tagged_tip', 'tagged_elsewhere')):
            forced = [r for r in reqs if r['kind'] == 'delete_branch' and r.get('shape') == 'existing']
            chosen = chosen + [r for r in forced if r not in chosen]
        snap = world.snapshot()
        first = True
        for req in chosen:
            if not first:
                world.restore(snap)
            first = False
            evaluate(world, model, wspec, req, sites, queue_order, out)
        for f in faults:
            world.restore(snap)
            cand = [r for r in reqs if r['kind'] == f['kind'] and r.get('shape') == f['shape']
                    and (r.get('bf') or {'t': 'none'})['t'] == 'none']
            if cand:
                r = cand[0]
                evaluate(world, model, wspec, r, sites, queue_order, out,
                         fault={'op': f['op'], 'ref': r['branch'] if f['ref'] == 'branch' else f['ref']})
                if f['kind'] == 'delete_branch':
                    # the same request again, nothing refused: the archive tag is on the tip, the job resumes
                    evaluate(world, model, wspec, dict(r, shape='retry-after-refusal'), sites, queue_order, out)
        world.drop_snapshot(snap)
    except Exception:
        out['error'] = traceback.format_exc()[-2500:]
    finally:
        if world is not None:
            world.close()
    out['wall'] = time.time() - t0
    return out


def corpus():
    return [json.load(open(f)) for f in sorted(glob.glob(os.path.join(core.VERIF, 'corpus', ID, '*.json')))]


def _replay_worker(task):
    scen, exe = task
    os.environ['PYTHONHASHSEED'] = '0'
    from lib import sysworld
    out = {'world': scen.get('world', 'replay'), 'evaluations': 0, 'mismatch': [], 'violations': [], 'hist': {},
           'nontrivial': [], 'samples': [], 'error': None, 'wall': 0.0, 'n_requests': 1}
    world = None
    try:
        model = core.Model(exe)
        world = sysworld.World(scen['cfg'])
        install_site_probe(world)
        run_setup(world, scen['setup'])
        refs = world.refs()
        queue_order = queue_order_of(world, refs)
        wspec = {'id': scen.get('world', 'replay'), 'cfg': scen['cfg'], 'setup': scen['setup'],
                 'layout': scen.get('world', 'replay').split('|')[0], 'pre': scen.get('pre')}
        evaluate(world, model, wspec, scen['request'], raise_sites(), queue_order, out, fault=scen.get('fault'))
    except Exception:
        out['error'] = traceback.format_exc()[-2500:]
    finally:
        if world is not None:
            world.close()
    return out


def _collect(ctx, results):
    for r in results:
        ctx.evaluations += r['evaluations']
        for k, v in r['hist'].items():
            ctx.count(k, v)
        for k in r['nontrivial']:
            ctx.seen_nontrivial(k)
        if r['error']:
            ctx.mismatch({'world': r['world']}, r['error'], None, 'scenario-harness-crash')
        for m in r['mismatch']:
            ctx.mismatch(m['input'], m['impl'], m['model'], m['function'])
        for v in r['violations']:
            ctx.violation(v['input'], 'the statement of C20 holds for this job', v['detail'], v['detail']['what'],
                          key=v['detail']['key'])
        for s in r['samples']:
            ctx.sample(s, limit=4)
        ctx.count('worlds')


FAULTS = [
    # the server refuses the deletion of the destination branch: the archive tag is already pushed
    {'kind': 'delete_branch', 'shape': 'existing', 'op': 1, 'ref': 'branch'},
    # the server refuses the new branch
    {'kind': 'create_branch', 'shape': 'newer', 'op': 0, 'ref': 'branch'},
]


WRITTEN_AGAINST = (r'^development/(\d+)\.(\d+)\Z|^stabilization/(\d+)\.(\d+)\.(\d+)\Z|^hotfix/(\d+)\.(\d+)\.(\d+)\Z',
                   r'^[a-fA-F0-9]*\Z|^development/(\d+)\.(\d+)\Z')


def _num(x):
    return x != '' and all(c in '0123456789' for c in x)


def grammar_branch(n):
    """The API grammar for branch names, without regular expressions (ASCII digits)."""
    for head, k in (('development/', 2), ('stabilization/', 3), ('hotfix/', 3)):
        if n.startswith(head):
            parts = n[len(head):].split('.')
            return len(parts) == k and all(_num(x) for x in parts)
    return False


def grammar_from(n):
    return all(c in '0123456789abcdefABCDEF' for c in n) or \
        (n.startswith('development/') and len(n[12:].split('.')) == 2 and all(_num(x) for x in n[12:].split('.')))


def grammar_probe(ctx):
    """The live API regexes against the grammar the quantifier is read with (tripwire: the literals)."""
    import bert_e.server.api.gwf.branches as api
    live = (api.BRANCH_REGEXP, api.BRANCH_FROM_REGEXP)
    escalate = live != WRITTEN_AGAINST
    if escalate:
        ctx.notes.append('API regex literals differ from the ones this check was written against: %r' % (live,))
    heads = ['development/', 'stabilization/', 'hotfix/', 'release/', 'q/', 'Development/', ' development/', '']
    vers = ['4', '4.3', '4.3.1', '4.3.1.0', '04.03', '4.', '.3', '4..3', '4.x', '4.3 ', '4.3\n', '', '10.0', '4.3.18',
            '4-3', '4.3.1.', 'a.b', '4.3a', '١.٢']
    if escalate:
        vers += ['%s%s%s' % (a, sep, b) for a in ('4', '44', '') for sep in ('.', '..', ',') for b in ('3', '33', '')]
    for h in heads:
        for v in vers:
            n = h + v
            ctx.count('grammar_probe')
            want = grammar_branch(n) if n.isascii() else None
            if want is not None and api_accepts(n) != want:
                ctx.mismatch({'name': n}, api_accepts(n), want, 'API grammar (branch)')
    for n in ['', 'abc', 'ABCDEF0123', 'xyz', 'abc\n', 'development/4.3', 'development/4', 'development/4.3.1',
              'stabilization/4.3.1', 'deadbeef ', 'g', '0', 'development/4.3\n', 'development/04.3']:
        ctx.count('grammar_probe')
        if api_accepts_from(n) != grammar_from(n):
            ctx.mismatch({'branch_from': n}, api_accepts_from(n), grammar_from(n), 'API grammar (branch_from)')


def run(ctx):
    if ctx.model is None:
        ctx.notes.append('extracted model unavailable: correspondence and monitors not run')
        return
    exe = ctx.model.exe
    ws = worlds(ctx)
    per_world = 6 if ctx.quick else 26
    n_worlds = 16 if ctx.quick else len(ws)
    rng = ctx.rng
    if ctx.quick:
        # one world of every layout x queue mode first, then random ones
        must = [w for w in ws if w['pre'] == 'none' and w['nq'] == (2 if w['cfg']['use_queue'] and
                w['layout'] in ('plain', 'hotfix', 'stab', 'mixed') else 0)]
        three = [w for w in ws if w.get('perm') and w['perm'] != sorted(w['perm'])]
        rng.shuffle(three)
        picked = []
        for lay in ('plain', 'hotfix', 'stab'):
            picked += [w for w in three if w['layout'] == lay][:1]
        # the hotfix pull request with the highest id, queued last: queued_prs lists it first
        picked += [w for w in ws if w.get('perm') == [0, 1, 2] and w['layout'] == 'hotfix']
        picked += [w for w in ws if w['pre'] in ('tagged_tip', 'tagged_elsewhere') and w['cfg']['use_queue']]
        must = must + picked
        n_worlds = max(n_worlds, len(must) + 4)
        rest = [w for w in ws if w not in must]
        rng.shuffle(rest)
        chosen = (must + rest)[:n_worlds]
    else:
        chosen = ws
    tasks = []
    for i, w in enumerate(chosen):
        idx = [rng.randrange(10 ** 6) for _ in range(per_world)]
        faults = FAULTS if (not ctx.quick or i < 2) else []
        tasks.append((w, idx, exe, per_world, faults))
    ctx.rule = ('corpus first; then %d worlds out of the family layout {plain, stabilization, hotfix line, major-only, '
                'mixed, single} x queues on/off x 0-2 queued pull requests (hotfix queues included) x preliminary '
                'admin jobs {none, archived development / stabilization / hotfix branch, leading-zero stabilization, '
                'two-digit minor, merged queue, archive tag already on the tip / elsewhere} + worlds with three pull requests '
                'opened first and queued in every order (hotfix pull request with the highest id included); in each world %d requests drawn from: create/delete x {older, '
                'between, newer, existing, archived, stabilization next/skipped/wrong/released/orphan patch, hotfix with/without '
                'start tag} x branch_from {absent, first/last development branch, tip/parent of the last one, tip '
                'of a middle one, feature branch tip, unknown sha, missing branch}, rebuild/delete/force-merge '
                'queues, names outside the API grammar (model only); every request is run from the same snapshot '
                'of the world; evaluation = one real job; non-trivial = distinct (layout, queues, job, shape, '
                'branch_from, raise site) among jobs that end past the existence test; in worlds with q/* branches '
                'every existing destination branch is additionally deleted' % (len(chosen), per_world))
    grammar_probe(ctx)
    scens = corpus()
    ctx.count('corpus_scenarios', len(scens))
    mp = get_context('fork')
    with mp.Pool(16) as pool:
        r1 = pool.map_async(_replay_worker, [(sc, exe) for sc in scens], chunksize=1)
        r2 = pool.map_async(_worker, tasks, chunksize=1)
        _collect(ctx, r1.get())
        results = r2.get()
    _collect(ctx, results)
    ctx.extra['worlds_in_family'] = len(ws)
    ctx.extra['requests_per_world'] = sorted(set(r['n_requests'] for r in results))
    ctx.extra['slowest_world_s'] = round(max(r['wall'] for r in results), 1)


def replay(ctx, data):
    inp = data['input']
    scen = {'world': inp.get('world', 'replay'), 'cfg': inp['cfg'], 'setup': inp['setup'],
            'request': inp['request'], 'fault': inp.get('fault')}
    _collect(ctx, [_replay_worker((scen, ctx.model.exe))])
