"""C20 - branch and queue admin jobs keep the repository well-formed or do nothing.

PROVE  coq/Properties/C20.v over Model/AdminJobs.v (decision logic of create_branch, delete_branch, delete_queues,
       rebuild_queues and the guard of force_merge_queues as pure functions over a repository view: heads, tags,
       commit DAG of Model/Git.v, the QueueCollection view) against Spec/C20Spec.v.
GEN    Facts_C20.v, observed on the running jobs (harness/lib/probe_c20.py: three small sysworld worlds, about a
       hundred real jobs, each built so that one thing decides): the tag a successful delete-branch leaves for a
       development / stabilization / hotfix branch (archive suffix), the start tag create-branch takes a hotfix
       branch from and the archive tag that makes it refuse (candidates and decoys, one at a time), the development
       branch a stabilization branch is taken from, the prefix-or-numbers guard of delete-branch (the only candidate
       that explains the refusal grid over the names of another remote branch), the queue name delete-branch looks
       for, which branches the queue jobs remove among q/* and decoys and which branch they leave checked out
       (hotfix / stabilization / development queue first), whether non-canonical spellings are refused, and the
       exception class of every exit the model names (the raise-site table of CORR comes from the same probes);
       one exit is dead code and is read from the raise statements no probe reached (AST of the handler and of the
       helpers it calls, found through the dispatcher); the kinds of the four outcome classes from the live
       classes; the two API regular expressions as the endpoint applies them to sentinel names (tripwires, probed
       against a regex-free grammar on every run).
CORR   system level (harness/lib/sysworld.py: mock host + real git): for cascades of a small family x every
       request the API grammar accepts relative to the existing branches x branch_from x queues on/off x 0-2
       queued pull requests, the real job is run and compared with the extracted model: outcome class, the
       raise site (which exit of the handler ended the job: traceback frames inside the admin-job modules looked up
       in the table of exits the probes of GEN observed - never message text, never source positions as such), the remote operations in order, refs and tags afterwards (commit
       identity through the sha <-> cid table of the scenario) and the pending jobs.
Monitors (harness/lib/mon_c20.py), independent of the model: inclusion and cascade rules on the real remote
       after a successful create (real BranchCascade on a fresh clone included), archive tag / queued data /
       live stabilization after a successful delete, remote untouched after a refusal, only q/* removed and the
       queued pull requests re-submitted in queue order by the queue jobs.
"""
import glob
import json
import os
import time
import traceback
from multiprocessing import get_context

from lib import core
from lib.coqgen import coq_str, coq_list

ID = 'C20'
COQ_CONE = ['Properties/C20.v']
EXTRACT = 'Extract/C20Extract.v'
DRIVER = 'ocaml/C20_driver.ml'
ASSUMPTIONS = [
    'no third party writes to the remote while an admin job runs (C08 covers interference); remote operations '
    'fail only where the scenario injects a rejection',
    'q/* branches exist only when queues are enabled (reachable states of one configuration)',
    'branch names are ASCII; the requested names are those of the API grammar plus a malformed stream that is '
    'compared with the model only',
    'the QueueCollection view (versions, master queue, pull request ids newest first) is computed by the harness '
    'from the refs and real git ancestry, independently of Bert-E; its coherence hypotheses are evaluated by the '
    'extracted checker on every real state',
]
TRUSTED = ['modelled by hand: Model/AdminJobs.v (order of the checks of the five handlers, BranchCascade '
           'build/validate restricted to what the admin jobs use, queued_prs / has_version_queued_prs); '
           'Model/Names.v (C18) for name classification; Model/Git.v for ancestry',
           'harness/lib/mon_c20.py re-implements the property monitors in Python over real git',
           'harness/lib/probe_c20.py: the scenarios that give a name to every exit of the handlers (raise-site table '
           'of CORR) and the candidate / decoy sets the generated facts are selected from']

# exits of the five handlers the model names, in the numbering of Model/AdminJobs.v (site_create, site_delete;
# queue jobs: queues disabled / no queue branch / queues removed); the numbering is the order of the `raise`
# statements in the source the model was written against - it is only a naming: which statement of the tree under
# test is which exit is *observed* (lib/probe_c20.py)
SITE_COUNT = [('create_branch', 10), ('delete_branch', 9), ('delete_queues', 3), ('rebuild_queues', 3),
              ('force_merge_queues', 1)]
# exits no live job reaches: create_branch:8 is the `except CommandError` around push(), dead code (a failed push
# raises PushFailedException) - its exception class is read from the raise statements no probe reached
UNREACHED = {'create_branch': [8]}


# ------------------------------------------------------------------------------------------ GEN

def _one(cands, what):
    cands = sorted(set(cands))
    if len(cands) != 1:
        raise ValueError('expected exactly one %s, found %r' % (what, cands))
    return cands[0]


_PROBES = {}


def probes():
    """The observations of lib/probe_c20.py on the tree under test (once per process; workers forked after GEN
    inherit them)."""
    if core.REPO not in _PROBES:
        from lib import probe_c20
        _PROBES[core.REPO] = probe_c20.run_probes(parallel=True)
    return _PROBES[core.REPO]


_TABLE = {}


def site_table():
    if core.REPO not in _TABLE:
        from lib import probe_c20
        # built from whatever the probes observed: when some probe failed GEN has failed closed already, and an exit
        # the table does not know is a correspondence mismatch - the monitors still run on every job
        _TABLE[core.REPO] = probe_c20.SiteTable(probes()['sites'])
    return _TABLE[core.REPO]


def _numeric_stab(name, major, minor):
    """A stabilization/<major>.<minor>.<micro> name, numbers compared as numbers (no regular expression)."""
    head = 'stabilization/'
    if not name.startswith(head):
        return False
    parts = name[len(head):].split('.')
    return len(parts) == 3 and all(_num(x) for x in parts) and int(parts[0]) == major and int(parts[1]) == minor


def _stab_guard(grid):
    """(head, numeric) of the live-stabilization guard of delete-branch: the only candidate
    `name.startswith(head + version) or (numeric and name is a stabilization branch of the same numbers)` that
    explains which other branch names made the deletion of development/4.3 refused."""
    if any(v not in (True, False) for _, v in grid):
        raise ValueError('delete-branch neither refused nor succeeded on the stabilization grid: %r' % (grid,))
    heads = ['stabilization/', 'stabilization', 'stabilization/0', 'stabilization/4', 'stab', 'stabilisation/',
             'xstabilization/', 'feature/stabilization/', 'hotfix/', '', None]
    fits = []
    for h in heads:
        for numeric in (False, True):
            pred = [(h is not None and x.startswith(h + '4.3')) or (numeric and _numeric_stab(x, 4, 3))
                    for x, _ in grid]
            if pred == [v for _, v in grid]:
                fits.append((h, numeric))
    if len(fits) != 1 or fits[0][0] is None:
        raise ValueError('live-stabilization guard of delete-branch: candidates that explain the grid: %r (grid %r)'
                         % (fits, grid))
    return fits[0]


def _queue_prefix(before, removed, created, what):
    if created:
        raise ValueError('%s created branches: %r' % (what, created))
    cands = ['q/', 'q', 'q/w/', 'q/w', 'q/4', 'queue/', 'Q/', '']
    fits = [c for c in cands if sorted(n for n in before if n.startswith(c)) == sorted(removed)]
    if len(fits) != 1:
        raise ValueError('%s: prefixes that explain the removed branches %r: %r' % (what, removed, fits))
    return fits[0]


def _destination_format(qname, dest):
    """'hotfix/%d.%d.%d' / 'stabilization/%s' / 'development/%s': %s stands for the version text of the queue
    branch, %d.%d.%d for its first three numbers (a hotfix queue has a fourth)."""
    qv = qname.split('/', 1)[1]
    if dest is None:
        raise ValueError('no branch checked out after the queue job on %s' % qname)
    if dest.endswith('/' + qv):
        return dest[:-len(qv)] + '%s'
    parts = qv.split('.')
    if len(parts) == 4 and dest.endswith('/' + '.'.join(parts[:3])):
        return dest[:-len('.'.join(parts[:3]))] + '%d.%d.%d'
    raise ValueError('queue job on %s left %s checked out' % (qname, dest))


def derive_facts(pr):
    """Observations -> the data of Facts_C20.v.  Raises when something cannot be established (fail closed)."""
    from lib import probe_c20
    if pr['errors']:
        raise ValueError('probes failed:\n' + '\n'.join(pr['errors']))
    nq = dict(pr['obs']['noqueue_create'], **pr['obs']['noqueue_delete'])
    qu = dict(pr['obs']['hotfix_tags'], **pr['obs']['queued'])
    de = pr['obs']['destinations']
    for grp, keys in ((nq, ('archive', 'stab_grid', 'canonical', 'supporting', 'create_archive_plain')),
                      (qu, ('archive', 'hotfix_start', 'q_checkouts', 'queue_scan')), (de, ('queue_dest',))):
        for k in keys:
            if k not in grp:
                raise ValueError('probe observation %r missing' % k)
    f = {}
    # ---- archive tags left by delete-branch
    sufs = []
    for name, ver, tags, gone, on_tip in nq['archive'] + qu['archive']:
        if gone != [name] or len(tags) != 1 or on_tip != [True] or not tags[0].startswith(ver):
            raise ValueError('delete-branch of %s: removed %r, new tags %r, on the old tip %r' % (name, gone, tags, on_tip))
        suf = tags[0][len(ver):]
        if name.startswith('hotfix/'):
            sufs.append(suf)
        elif suf != '':
            raise ValueError('archive tag of %s is %r, not its version' % (name, tags[0]))
    f['archive_suffix'] = _one(sufs, 'archive tag suffix of a hotfix branch')
    if not f['archive_suffix']:
        raise ValueError('hotfix branches are archived under their bare version')
    # ---- start tag of a hotfix branch
    f['start_suffix'] = _one([c for c, ok, _ in qu['hotfix_start'] if ok], 'hotfix start tag suffix')
    # ---- archive tag create-branch looks for
    if 'create_archive' not in qu:
        raise ValueError('archive tag looked for by create-branch: probe not run')
    ca = dict((c, v) for c, v in qu['create_archive'])
    if any(v not in (True, False) for v in ca.values()) or ca.get('') is not True or not nq['create_archive_plain']:
        raise ValueError('create-branch with an archive tag candidate: %r' % (qu['create_archive'],))
    f['create_suffix'] = _one([c for c, v in ca.items() if v and c], 'archive tag suffix looked for by create-branch')
    # ---- formats
    head, numeric = _stab_guard(nq['stab_grid'])
    f['stab_fmt'], f['stab_numeric'] = head + '%s', numeric
    ver, names = qu['q_checkouts']
    qn = [n for n in names if n.endswith(ver)]
    if len(qn) == 1 and qn[0] != ver:
        f['q_fmt'] = qn[0][:-len(ver)] + '%s'
    else:
        # the queue of the version is not looked for through a checkout: read the text
        cands = []
        for s in probe_c20.closure_strings('delete_branch'):
            if s.startswith('q/'):
                cands.append(s if s.endswith('%s') else (s[:-2] + '%s' if s.endswith('{}') else s + '%s'))
        f['q_fmt'] = _one(cands, 'queue name format')
    devs = []
    for stab, (major, minor), status, dev in nq['supporting']:
        tail = '%s.%s' % (major, minor)
        if status != 'JobSuccess' or not dev or not dev.endswith(tail):
            raise ValueError('create-branch of %s: %s, taken from %r' % (stab, status, dev))
        devs.append(dev[:-len(tail)] + '%s.%s')
    f['dev_fmt'] = _one(devs, 'supporting development format')
    for fmt, n in ((f['stab_fmt'], 1), (f['q_fmt'], 1), (f['dev_fmt'], 2)):
        if fmt.count('%s') != n or '%' in fmt.replace('%s', ''):
            raise ValueError('unexpected format %r' % fmt)
    # ---- queue jobs
    f['qpref'] = []
    scans = dict((k, (b, r, c, h)) for k, b, r, c, h in qu['queue_scan'])
    for k in ('rebuild_queues', 'delete_queues'):
        b, r, c, _ = scans[k]
        f['qpref'].append(_queue_prefix(b, r, c, k))
    fmts = {}
    for k, q, dest, gone in de['queue_dest']:
        if gone != [q]:
            raise ValueError('%s with the single queue branch %s removed %r' % (k, q, gone))
        nparts = len(q.split('/', 1)[1].split('.'))
        slot = {4: 0, 3: 1}.get(nparts, 2)
        fmts.setdefault(slot, set()).add(_destination_format(q, dest))
    for k, (b, r, c, h) in scans.items():
        # first queue branch of the scan world: a development queue
        fmts.setdefault(2, set()).add(_destination_format(sorted(r)[0], h))
    f['qd_formats'] = [_one(fmts.get(i, ()), 'destination format of the queue jobs (%s)' % w)
                       for i, w in enumerate(('hotfix queue', 'stabilization queue', 'development queue'))]
    # ---- canonical spellings
    if any(v not in (True, False) for _, v in nq['canonical']):
        raise ValueError('create-branch on non-canonical spellings: %r' % (nq['canonical'],))
    f['requires_canonical'] = _one([v for _, v in nq['canonical']], 'answer to non-canonical spellings')
    # ---- exception class of every exit
    by_label = {}
    for s in pr['sites']:
        by_label.setdefault(s['label'], set()).add(s['cls'])
    f['sites'] = []
    for key, n in SITE_COUNT:
        reached = set()
        for s in pr['sites']:
            if s['label'].startswith(key + ':'):
                reached.add(tuple(s['frames'][-1]))
        left = [r for r in probe_c20.raise_statements(key)
                if not any(r[0] == fr[0] and r[1] <= fr[1] <= r[2] for fr in reached)]
        classes = []
        unreached = []
        for i in range(n):
            got = by_label.get('%s:%d' % (key, i))
            if got:
                classes.append(_one(got, 'exception class of %s:%d' % (key, i)))
            elif i in UNREACHED.get(key, []):
                classes.append(None)
                unreached.append(i)
            else:
                raise ValueError('no probe ended at %s:%d' % (key, i))
        if len(left) != len(unreached):
            raise ValueError('%s: %d raise statement(s) no probe reached %r, %d expected' % (key, len(left), left, len(unreached)))
        for i, r in zip(unreached, left):
            classes[i] = r[3]
        f['sites'].append((key, classes))
    return f


def api_patterns():
    """The two regular expressions of the branch API, observed while the endpoint validates sentinel subjects."""
    if core.REPO in _API:
        return _API[core.REPO]
    import bert_e.server.api.gwf.branches as api
    from lib import reprobe
    sb, sf = 'development/91.92', 'development/93.94'

    def ask(mod):
        with reprobe.observe() as ev:
            mod.CreateBranch.validate_endpoint_data(sb, {'branch_from': sf})
            mod.DeleteBranch.validate_endpoint_data(sb, None)
        return ev
    ev = ask(api)
    if not reprobe.applied_to(ev, sb) or not reprobe.applied_to(ev, sf):
        with reprobe.observe() as ev0:
            mod = reprobe.fresh_module('bert_e/server/api/gwf/branches.py')
        ev = ev0 + ask(mod)
    b, bfl = reprobe.the_pattern(ev, sb, 'branch API (branch)')
    bf, bffl = reprobe.the_pattern(ev, sf, 'branch API (branch_from)')
    import re
    plain = re.compile('x').flags
    if not isinstance(b, str) or not isinstance(bf, str) or bfl != plain or bffl != plain:
        raise ValueError('patterns of the branch API have an unexpected shape: %r %r / %r %r' % (b, bfl, bf, bffl))
    _API[core.REPO] = (b, bf)
    return b, bf


_API = {}


def gen_facts(ctx):
    f = derive_facts(probes())
    from bert_e import exceptions as ex
    kinds = []
    for cls in ('NothingToDo', 'JobFailure', 'JobSuccess', 'NotMyJob'):
        c = getattr(ex, cls)
        kinds.append((cls, 'silent' if issubclass(c, ex.SilentException) else
                      'template' if issubclass(c, ex.TemplateException) else
                      'internal' if issubclass(c, ex.InternalException) else 'other'))
    import bert_e.server.api.gwf.branches as api
    from lib import probe_c20
    jobs = probe_c20.job_classes()
    if api.CreateBranch.job is not jobs['create_branch'] or api.DeleteBranch.job is not jobs['delete_branch']:
        raise ValueError('API endpoints are not bound to the expected job classes')
    branch_re, branch_from_re = api_patterns()
    stab_fmt, q_fmt = f['stab_fmt'], f['q_fmt']
    text = '''(* GENERATED on every run by harness/props/c20.py from %s - do not edit *)
From Coq Require Import List String.
Import ListNotations.
Open Scope string_scope.
(* delete_branch: archive_tag = del_branch.version [+ suffix for a hotfix branch] *)
Definition archive_hotfix_suffix : string := %s.
(* create_branch: a hotfix branch starts from the tag new_branch.version + suffix *)
Definition hotfix_start_suffix : string := %s.
(* formats; *_head is the text before the single trailing %%s *)
Definition stab_prefix_format : string := %s.
Definition stab_prefix_head : string := %s.
Definition queue_name_format : string := %s.
Definition queue_name_head : string := %s.
Definition supporting_dev_format : string := %s.
(* create_branch: suffix of the archive tag it looks for when the new branch is a hotfix branch *)
Definition create_archive_hotfix_suffix : string := %s.
(* queue_destination (rebuild_queues.py), called by rebuild_queues and delete_queues: hfrev / micro / else *)
Definition queue_destination_formats : list string := %s.
(* delete_branch: any(b.startswith(prefix) or is_stabilization_of(repo, b, del_branch)) *)
Definition delete_stab_numeric : bool := %s.
(* create_branch: `or not is_canonical_version(new_branch.version)` in the destination-branch test *)
Definition create_requires_canonical : bool := %s.
(* b.startswith(...) in rebuild_queues, delete_queues *)
Definition queue_scan_prefixes : list string := %s.
(* exception class of every `raise` of each handler, in source order *)
Definition raise_sites : list (string * list string) := %s.
(* kind of the four outcome classes *)
Definition outcome_kinds : list (string * string) := %s.
(* TRIPWIRES - regex literals of the API grammar; no proof depends on them *)
Definition api_branch_regexp : string := %s.
Definition api_branch_from_regexp : string := %s.
''' % (core.REPO, coq_str(f['archive_suffix']), coq_str(f['start_suffix']), coq_str(stab_fmt), coq_str(stab_fmt[:-2]),
       coq_str(q_fmt), coq_str(q_fmt[:-2]), coq_str(f['dev_fmt']), coq_str(f['create_suffix']),
       coq_list(map(coq_str, f['qd_formats'])), 'true' if f['stab_numeric'] else 'false',
       'true' if f['requires_canonical'] else 'false', coq_list(map(coq_str, f['qpref'])),
       coq_list('(%s, %s)' % (coq_str(k), coq_list(coq_str(c) for c in cl)) for k, cl in f['sites']),
       coq_list('(%s, %s)' % (coq_str(a), coq_str(b)) for a, b in kinds),
       coq_str(branch_re), coq_str(branch_from_re))
    return {'Generated/Facts_C20.v': text}


# ------------------------------------------------------------------------------------------ scenarios

LAYOUTS = {
    'plain': [[4, 3, None, []], [5, 1, None, []], [10, 0, None, []]],
    'stab': [[4, 3, 18, []], [5, 1, 4, []], [10, 0, None, []]],
    'hotfix': [[4, 3, None, [17]], [5, 1, None, []]],
    'major': [[4, 3, None, []], [5, 1, None, []], [5, None, None, []]],
    'mixed': [[4, 3, 18, [16]], [5, 1, 4, []], [10, None, None, []]],
    'single': [[4, 3, None, []]],
}

# how the pull requests of a world are queued before the request: (source, destination) in queue order
QUEUE_SETUPS = {
    'plain': [[], [['bugfix/TEST-1', 'development/4.3']],
              [['bugfix/TEST-1', 'development/5.1'], ['feature/TEST-2', 'development/4.3']]],
    'stab': [[], [['bugfix/TEST-1', 'stabilization/5.1.4']],
             [['bugfix/TEST-1', 'development/10.0'], ['bugfix/TEST-2', 'stabilization/4.3.18']]],
    'hotfix': [[], [['bugfix/TEST-1', 'hotfix/4.3.17']],
               [['bugfix/TEST-1', 'development/5.1'], ['bugfix/TEST-2', 'hotfix/4.3.17']],
               [['bugfix/TEST-1', 'hotfix/4.3.17'], ['bugfix/TEST-2', 'development/4.3']]],
    'major': [[], [['bugfix/TEST-1', 'development/5.1']]],
    'mixed': [[], [['bugfix/TEST-1', 'hotfix/4.3.16'], ['bugfix/TEST-2', 'development/5.1']]],
    'single': [[], [['bugfix/TEST-1', 'development/4.3']]],
}

# three pull requests opened first (ids 1, 2, 3) and queued in the given order of indices: the queue order differs
# from the id order; in the hotfix layout the hotfix pull request has the highest id (queued_prs lists it first)
THREE = {
    'plain': ([['bugfix/TEST-1', 'development/4.3'], ['feature/TEST-2', 'development/5.1'],
               ['improvement/TEST-3', 'development/4.3']],
              [[0, 1, 2], [0, 2, 1], [1, 0, 2], [1, 2, 0], [2, 0, 1], [2, 1, 0]]),
    'hotfix': ([['bugfix/TEST-1', 'development/4.3'], ['feature/TEST-2', 'development/5.1'],
                ['bugfix/TEST-3', 'hotfix/4.3.17']],
               [[0, 1, 2], [2, 0, 1], [1, 0, 2], [1, 2, 0]]),
    'stab': ([['bugfix/TEST-1', 'development/10.0'], ['bugfix/TEST-2', 'stabilization/4.3.18'],
              ['feature/TEST-3', 'development/5.1']],
             [[2, 0, 1], [1, 2, 0], [2, 1, 0]]),
}

# admin jobs run before the request (archived = created-then-deleted, non-canonical spellings, merged queues)
PRE_STEPS = {
    'none': [],
    'archived_dev': [{'s': 'job', 'kind': 'create_branch', 'args': {'branch': 'development/4.4'}},
                     {'s': 'job', 'kind': 'delete_branch', 'args': {'branch': 'development/4.4'}}],
    'archived_hotfix': [{'s': 'job', 'kind': 'delete_branch', 'args': {'branch': 'hotfix/4.3.17'}}],
    'archived_stab': [{'s': 'job', 'kind': 'create_branch', 'args': {'branch': 'stabilization/5.1.0'}},
                      {'s': 'job', 'kind': 'delete_branch', 'args': {'branch': 'stabilization/5.1.0'}}],
    'leading_zero_stab': [{'s': 'job', 'kind': 'create_branch', 'args': {'branch': 'stabilization/05.1.0'}}],
    'long_minor': [{'s': 'job', 'kind': 'create_branch', 'args': {'branch': 'development/4.30'}},
                   {'s': 'job', 'kind': 'create_branch', 'args': {'branch': 'stabilization/4.30.0'}}],
    'merged_queue': [{'s': 'merge_queue'}],
    # the archive tag is already there: on the tip of the branch (an interrupted delete-branch: resumed) or elsewhere
    'tagged_tip': [{'s': 'tag', 'tag': '5.1', 'ref': 'development/5.1'}],
    'tagged_elsewhere': [{'s': 'tag', 'tag': '5.1', 'ref': 'development/4.3'}],
    'hotfix_tagged_tip': [{'s': 'tag', 'tag': '4.3.17.archived_hotfix_branch', 'ref': 'hotfix/4.3.17'}],
}


def worlds(ctx):
    """The family of worlds: layout x queues on/off x queued pull requests x preliminary admin jobs."""
    res = []
    for lay in ('plain', 'stab', 'hotfix', 'major', 'mixed', 'single'):
        for uq in (True, False):
            setups = QUEUE_SETUPS[lay] if uq else [[]]
            for qi, queued in enumerate(setups):
                pres = ['none']
                if lay == 'plain':
                    pres += ['archived_dev', 'archived_stab', 'leading_zero_stab', 'long_minor']
                    if uq and queued:
                        pres += ['merged_queue']
                    if not queued:
                        pres += ['tagged_tip', 'tagged_elsewhere']
                if lay == 'hotfix':
                    pres += ['archived_hotfix']
                    if uq and queued:
                        pres += ['merged_queue']        # an emptied hotfix queue (q/x.y.z.n) is left behind
                    if not queued:
                        pres += ['hotfix_tagged_tip']
                for pre in pres:
                    if pre == 'archived_hotfix' and any(d == 'hotfix/4.3.17' for _, d in queued):
                        continue
                    if pre == 'merged_queue':
                        steps = [{'s': 'queue_pr', 'src': s, 'dst': d} for s, d in queued] + PRE_STEPS[pre]
                        order = []
                    else:
                        steps = PRE_STEPS[pre] + [{'s': 'queue_pr', 'src': s, 'dst': d} for s, d in queued]
                        order = list(range(1, len(queued) + 1))
                    steps = [{'s': 'feature', 'branch': 'feature/outside', 'from': LAYOUT_FIRST_DEV[lay]}] + steps
                    res.append({'id': '%s|%s|q%d|%s' % (lay, 'queue' if uq else 'noqueue', qi, pre),
                                'cfg': {'layout': LAYOUTS[lay], 'use_queue': uq, 'skip_queue': False},
                                'setup': steps, 'layout': lay, 'pre': pre, 'nq': len(queued)})
    for lay, (prs, perms) in THREE.items():
        for perm in perms:
            steps = [{'s': 'feature', 'branch': 'feature/outside', 'from': LAYOUT_FIRST_DEV[lay]}] + \
                [{'s': 'open_pr', 'src': a, 'dst': b} for a, b in prs] + [{'s': 'queue_open', 'i': i} for i in perm]
            res.append({'id': '%s|queue|three%s|none' % (lay, ''.join(str(i + 1) for i in perm)),
                        'cfg': {'layout': LAYOUTS[lay], 'use_queue': True, 'skip_queue': False},
                        'setup': steps, 'layout': lay, 'pre': 'none', 'nq': 3, 'perm': perm})
    return res


LAYOUT_FIRST_DEV = {k: 'development/%d.%d' % (v[0][0], v[0][1]) for k, v in LAYOUTS.items()}


def requests_for(refs, tags, use_queue):
    """Every request shape of the quantifier, relative to the existing destination branches."""
    from lib import mon_c20 as mc
    dests = [(n, mc.parse_dest(n)) for n in sorted(refs)]
    dests = [(n, d) for n, d in dests if d]
    devs = sorted([(mc.line_key(d[1], d[2]), n, d) for n, d in dests if d[0] == 'dev'])
    reqs = []
    names = []
    if devs:
        lo, hi = devs[0][2], devs[-1][2]
        names.append(('older', 'development/%d.%d' % ((lo[1], lo[2] - 1) if lo[2] else (lo[1] - 1, 9))))
        names.append(('newer', 'development/%d.0' % (hi[1] + 1)))
        for (_, _, a), (_, _, b) in zip(devs, devs[1:]):
            if a[2] is not None:
                names.append(('between', 'development/%d.%d' % (a[1], a[2] + 1)))
        names.append(('between-major', 'development/%d.0' % (lo[1] + 1 if lo[1] + 1 != hi[1] else lo[1] + 2)))
        for _, n, d in devs:
            names.append(('existing', n))
            if d[2] is not None:
                rel = [-1] + [int(t.split('.')[2]) for t in tags
                              if re_match_tag(t) and t.lstrip('v').split('.')[:2] == [str(d[1]), str(d[2])]]
                names.append(('stab-next', 'stabilization/%d.%d.%d' % (d[1], d[2], max(rel) + 1)))
                names.append(('stab-wrong', 'stabilization/%d.%d.%d' % (d[1], d[2], max(rel) + 3)))
                names.append(('stab-skip', 'stabilization/%d.%d.%d' % (d[1], d[2], max(rel) + 2)))
                if max(rel) >= 0:
                    names.append(('stab-released', 'stabilization/%d.%d.%d' % (d[1], d[2], max(rel))))
        names.append(('stab-orphan', 'stabilization/%d.%d.0' % (hi[1] + 2, 7)))
        names.append(('stab-zero', 'stabilization/0%d.%d.0' % (lo[1], lo[2] or 0)))
    else:
        names += [('older', 'development/1.0'), ('stab-orphan', 'stabilization/1.0.0')]
    for n, d in dests:
        if d[0] != 'dev':
            names.append(('existing', n))
    for t in sorted(tags):
        parts = t.split('.')
        if t.endswith('.archived_hotfix_branch'):
            names.append(('archived', 'hotfix/' + t[:-len('.archived_hotfix_branch')]))
        elif all(p.isdigit() for p in parts):
            if len(parts) == 2:
                names.append(('archived', 'development/' + t))
            elif len(parts) == 3:
                names.append(('archived', 'stabilization/' + t))
                names.append(('hotfix-release-tag', 'hotfix/' + t))
            elif len(parts) == 4 and parts[3] == '0':
                names.append(('hotfix', 'hotfix/' + '.'.join(parts[:3])))
    names.append(('hotfix-notag', 'hotfix/9.9.9'))
    seen = set()
    for shape, n in names:
        if n in seen:
            continue
        seen.add(n)
        bfs = [{'t': 'none'}]
        if not (shape in ('existing',) and n in refs):
            if devs:
                bfs += [{'t': 'branch', 'ref': devs[0][1]}, {'t': 'branch', 'ref': devs[-1][1]},
                        {'t': 'tip', 'ref': devs[-1][1]}, {'t': 'parent', 'ref': devs[-1][1]},
                        {'t': 'tip', 'ref': 'feature/outside'}, {'t': 'unknown'},
                        {'t': 'branch', 'ref': 'development/77.7'}]
                if len(devs) > 1:
                    bfs += [{'t': 'tip', 'ref': devs[len(devs) // 2][1]}]
        for bf in bfs:
            reqs.append({'kind': 'create_branch', 'branch': n, 'bf': bf, 'shape': shape})
        reqs.append({'kind': 'delete_branch', 'branch': n, 'shape': shape})
    for k in ('rebuild_queues', 'delete_queues'):
        reqs.append({'kind': k, 'shape': 'queues'})
    if not use_queue:
        reqs.append({'kind': 'force_merge_queues', 'shape': 'queues'})
    # malformed stream: names the API grammar rejects (compared with the model only)
    for n in ('development/11', 'release/5.1', 'feature/x', 'nonsense', 'q/4.3', 'hotfix/abc', 'user/x',
              'w/5.1/feature/x', 'development/5.1.0', 'stabilization/5.1'):
        reqs.append({'kind': 'create_branch', 'branch': n, 'bf': {'t': 'none'}, 'shape': 'malformed'})
        reqs.append({'kind': 'delete_branch', 'branch': n, 'shape': 'malformed'})
    return reqs


def re_match_tag(t):
    import re
    return bool(re.match(r'^v?\d+\.\d+\.\d+(\.\d+)?$', t)) and '\n' not in t


def api_accepts(name, kind=None):
    """Does the branch API accept this name?  (the endpoint's own validation, whatever it is written with; without
    a kind: the answer of both endpoints, 'differ' when they disagree)"""
    import bert_e.server.api.gwf.branches as api
    res = []
    for k, ep in (('create_branch', api.CreateBranch), ('delete_branch', api.DeleteBranch)):
        if kind in (None, k):
            try:
                ep.validate_endpoint_data(name, None)
                res.append(True)
            except ValueError:
                res.append(False)
    return res[0] if len(set(res)) == 1 else 'differ'


def api_accepts_from(bf):
    import bert_e.server.api.gwf.branches as api
    try:
        api.CreateBranch.validate_endpoint_data('development/1.0', {'branch_from': bf})
    except ValueError:
        return False
    return True


# ------------------------------------------------------------------------------------------ one world

def _queue_pr(world, src, dst):
    pr = world.apply({'e': 'create_pr', 'src': src, 'dst': dst})['pr']
    world.run_job({'e': 'job_pr', 'pr': pr})
    refs = world.refs()
    for n in refs:
        if n == src or (n.startswith('w/') and n.endswith('/' + src)):
            world.apply({'e': 'build', 'ref': n, 'state': 'SUCCESSFUL'})
    st = world.run_job({'e': 'job_pr', 'pr': pr})['status']
    if st != 'Queued':
        raise RuntimeError('could not queue %s -> %s: %s' % (src, dst, st))
    return pr


def _drive_to_queue(world, pr, src):
    world.run_job({'e': 'job_pr', 'pr': pr})
    refs = world.refs()
    for n in refs:
        if n == src or (n.startswith('w/') and n.endswith('/' + src)):
            world.apply({'e': 'build', 'ref': n, 'state': 'SUCCESSFUL'})
    st = world.run_job({'e': 'job_pr', 'pr': pr})['status']
    if st != 'Queued':
        raise RuntimeError('could not queue pull request %d (%s): %s' % (pr, src, st))
    world._c20_qorder.append(pr)


def queue_order_of(world, refs):
    """The pull requests still queued, in the order in which the scenario queued them (the ground truth)."""
    return [p for p in getattr(world, '_c20_qorder', []) if any(n.startswith('q/w/%d/' % p) for n in refs)]


def run_setup(world, steps):
    if not hasattr(world, '_c20_qorder'):
        world._c20_qorder, world._c20_open = [], []
    for s in steps:
        if s['s'] == 'queue_pr':
            world._c20_qorder.append(_queue_pr(world, s['src'], s['dst']))
        elif s['s'] == 'open_pr':
            # the pull request gets its id now; it is queued later, possibly after pull requests with higher ids
            world._c20_open.append((world.apply({'e': 'create_pr', 'src': s['src'], 'dst': s['dst']})['pr'], s['src']))
        elif s['s'] == 'queue_open':
            pr, src = world._c20_open[s['i']]
            _drive_to_queue(world, pr, src)
        elif s['s'] == 'tag':
            world.ugit('fetch', '-q', 'origin')
            world.ugit('tag', s['tag'], 'origin/' + s['ref'])
            world.ugit('push', '-q', 'origin', s['tag'])
        elif s['s'] == 'job':
            world.run_job({'e': 'job_api', 'kind': s['kind'], 'args': s['args']})
            world.drain()
        elif s['s'] == 'feature':
            world.apply({'e': 'new_branch', 'branch': s['branch'], 'from': s['from'], 'label': 'outside'})
        elif s['s'] == 'merge_queue':
            refs = world.refs()
            q = sorted(n for n in refs if n.startswith('q/w/'))
            for n in q:
                world.apply({'e': 'build', 'ref': n, 'state': 'SUCCESSFUL'})
            if q:
                world.run_job({'e': 'job_commit', 'ref': q[-1]})
        else:
            raise ValueError(s)


def resolve_bf(world, refs, bf):
    """-> (settings value or None, model encoding)."""
    from lib import mon_c20 as mc
    t = bf['t']
    if t == 'none':
        return None, 'N', None
    if t == 'branch':
        return bf['ref'], 'B' + mc.hx(bf['ref']), None
    if t == 'unknown':
        return 'abcdef0123', 'C-', None
    sha = refs.get(bf['ref'])
    if sha is None:
        return 'abcdef0123', 'C-', None
    if t == 'parent':
        g = world.graph()
        ps = g[sha][0]
        sha = ps[0] if ps else sha
    return sha, None, sha


def install_site_probe(world):
    """Remember the exception that ends BertE.process so that the raise site can be read from its traceback."""
    from lib import probe_c20
    probe_c20.install_site_probe(world)


def site_of(exc, table, kind, predicted=None):
    """'<handler>:<ordinal>' (numbering of the model) of the exit of a real job: the traceback frames of the
    exception inside the admin-job modules, looked up in the table of exits observed by the probes of GEN (never
    message text, never the position of a statement in the file)."""
    return table.site(kind, exc, predicted)


KIND_JOB = {'create_branch': 'create', 'delete_branch': 'delete', 'rebuild_queues': 'rebuild',
            'delete_queues': 'delete_queues', 'force_merge_queues': 'force_merge'}


def model_site(req, ans, chained):
    """The raise site the model predicts, as '<handler>:<ordinal>'."""
    w = ans.split(' ')
    cls, site, muts = w[0], w[1], w[3][5:]
    k = req['kind']
    if cls == 'Crashed':
        return None
    if k in ('create_branch', 'delete_branch'):
        if k == 'create_branch' and chained:
            return 'rebuild_queues:%d' % (2 if 'A:' in muts else 1)
        return '%s:%s' % (k, site)
    if k in ('rebuild_queues', 'delete_queues'):
        return '%s:%d' % (k, 0 if cls == 'NotMyJob' else (2 if 'A:' in muts else 1))
    return 'force_merge_queues:0' if cls == 'NotMyJob' else None


def ops_of_model(ans):
    """Model mutations -> the remote operations and enqueued ids they stand for."""
    from lib import mon_c20 as mc
    muts = ans.split(' ')[3][5:]
    ops, enq = [], []
    for m in ([] if muts == '-' else muts.split(';')):
        p = m.split(':')
        if p[0] == 'PN':
            ops.append(['push', bytes.fromhex(p[1]).decode()])
        elif p[0] == 'D':
            ops.append(['push', ':' + bytes.fromhex(p[1]).decode()])
        elif p[0] == 'T':
            ops.append(['pushtag', bytes.fromhex(p[1]).decode()])
        elif p[0] == 'A':
            ops.append(['push_all', sorted(bytes.fromhex(x).decode() for x in p[1].split(',') if x)])
        elif p[0] == 'E':
            enq.append(int(p[1]))
    return ops, enq


def ops_of_impl(rec):
    import re
    ops = []
    pa = [t for t in rec['trace'] if t['op'] == 'push_all']
    for o in rec['ops']:
        if not o.get('ok'):
            continue
        if o['kind'] == 'push':
            for n in o['detail']:
                ops.append(['push', n])
        elif o['kind'] == 'rawpush':
            m = re.match(r'^git push origin (\S+)$', o['detail'])
            ops.append(['pushtag', m.group(1)] if m else ['rawpush', o['detail']])
        elif o['kind'] == 'push_all':
            t = pa.pop(0) if pa else {}
            ops.append(['push_all', sorted(t.get('deleted', []))])
    return ops


def decode_refs(field, view):
    if field == '-':
        return {}
    res = {}
    for e in field.split(','):
        n, c = e.split(':')
        res[bytes.fromhex(n).decode()] = view['order'][int(c)]
    return res


def evaluate(world, model, wspec, req, sites, queue_order, out, fault=None):
    """Run one request on the real system from the current state and compare with model and monitors."""
    from lib import mon_c20 as mc
    before = world.dump()
    view = mc.view_of(world, before)
    venc = mc.encode_view(view)
    uq = world.cfg['use_queue']
    args = {}
    bfenc = 'N'
    if 'branch' in req:
        args['branch'] = req['branch']
    if req['kind'] == 'create_branch':
        val, enc, sha = resolve_bf(world, before['refs'], req['bf'])
        if val is not None:
            args['branch_from'] = val
        bfenc = enc if enc else ('C%d' % view['cid'][sha] if sha in view['cid'] else 'C-')
    fails = '-'
    wfault = None
    if fault is not None:
        fails = str(fault['op'])
        wfault = {'mode': 'reject', 'at': fault['op'], 'ref': fault['ref']}
    line = 'job=%s uq=%d fails=%s %s name=%s bf=%s' % (KIND_JOB[req['kind']], uq, fails, venc,
                                                       mc.hx(req.get('branch', '')) or '-', bfenc)
    ans = model.batch([line])[0]
    ev = {'e': 'job_api', 'kind': req['kind'], 'args': args}
    world.berte._c20_exc = None
    rec = world.run_job(ev, fault=wfault)
    rec['fault'] = fault
    exc = getattr(world.berte, '_c20_exc', None)
    after = world.dump()
    out['evaluations'] += 1
    inp = {'world': wspec['id'], 'cfg': wspec['cfg'], 'setup': wspec['setup'], 'request': req, 'fault': fault}
    if ans.startswith('ERR'):
        out['mismatch'].append({'function': 'driver', 'input': inp, 'impl': rec['status'], 'model': ans})
        return
    w = ans.split(' ')
    mcls, mdetail, chk = w[0], w[2], w[6][4:]
    st = rec['status']
    icls = st if st in mc.OUTCOMES else 'Crashed'
    idetail = st if icls == 'Crashed' else '-'
    key = '%s|%s|%s' % (req['kind'], req.get('shape'), st)
    out['hist']['status:' + st] = out['hist'].get('status:' + st, 0) + 1
    out['hist']['kind:' + req['kind']] = out['hist'].get('kind:' + req['kind'], 0) + 1
    out['hist']['shape:' + str(req.get('shape'))] = out['hist'].get('shape:' + str(req.get('shape')), 0) + 1
    # hypotheses of the theorems on the real pre-state (queue view covers the heads, is coherent, lies below the
    # last development branch; tips are commits of the graph)
    if chk != '1111' and wspec.get('pre') != 'leading_zero_stab':
        out['mismatch'].append({'function': 'view hypotheses (cover, coherent, below_last, bounded)', 'input': inp,
                                'impl': chk, 'model': '1111'})
    # ---- correspondence: outcome class, raise site, remote operations, refs/tags after, pending jobs
    d = mc.parse_dest(req.get('branch', '')) if 'branch' in req else None
    chained = bool(req['kind'] == 'create_branch' and uq and d and d[0] == 'dev' and 'PN:' in w[3])
    msite = model_site(req, ans, chained)
    isite = site_of(exc, sites, req['kind'], msite)
    if req['kind'] == 'force_merge_queues' and mcls != 'NotMyJob':
        return
    if icls != mcls or (mcls == 'Crashed' and mdetail != idetail):
        out['mismatch'].append({'function': 'outcome', 'input': inp, 'impl': [st, isite], 'model': w[:3]})
    elif mcls != 'Crashed' and isite != msite:
        out['mismatch'].append({'function': 'raise site', 'input': inp, 'impl': [st, isite], 'model': [mcls, msite, mdetail]})
    elif mcls == 'JobFailure' and mdetail.startswith('RNotConform:') and \
            '(%s)' % mdetail.split(':')[1] not in (rec.get('details') or ''):
        out['mismatch'].append({'function': 'cascade error class', 'input': inp, 'impl': rec.get('details'),
                                'model': mdetail})
    mops, menq = ops_of_model(ans)
    iops = ops_of_impl(rec)
    if mops != iops:
        out['mismatch'].append({'function': 'remote operations', 'input': inp, 'impl': iops, 'model': mops})
    mrefs, mtags = decode_refs(w[4][6:], view), decode_refs(w[5][5:], view)
    if mrefs != after['refs']:
        diff = sorted(n for n in set(mrefs) | set(after['refs']) if mrefs.get(n) != after['refs'].get(n))
        out['mismatch'].append({'function': 'refs after', 'input': inp, 'impl': {n: after['refs'].get(n) for n in diff},
                                'model': {n: mrefs.get(n) for n in diff}})
    if mtags != {t: s for t, s in after['tags'].items()}:
        out['mismatch'].append({'function': 'tags after', 'input': inp, 'impl': after['tags'], 'model': mtags})
    ipend = after['pending'][len(before['pending']):]
    if ipend != ['Webhook for pull request #%d' % p for p in menq]:
        out['mismatch'].append({'function': 'pending jobs', 'input': inp, 'impl': ipend, 'model': menq})
    if (req['kind'] == 'rebuild_queues' or chained) and chk == '1111':
        # the model's queued_prs against the order in which the scenario queued the pull requests, inside every
        # queue version (hotfix pull requests come first in queued_prs whatever their age)
        mq = [] if w[7][5:] == '-' else [int(x) for x in w[7][5:].split('.')]
        for e in view['queues']:
            known = [p for p in queue_order if p in e['prs']]
            if [p for p in mq if p in known] != known:
                out['mismatch'].append({'function': 'queued_prs vs the order the pull requests were queued in',
                                        'input': inp, 'impl': known, 'model': mq})
        if sorted(mq) != sorted(queue_order):
            out['mismatch'].append({'function': 'queued_prs vs the set of queued pull requests', 'input': inp,
                                    'impl': queue_order, 'model': mq})
    # ---- monitors of the statement on the real system (inputs inside the quantifier only)
    inside = True
    if 'branch' in req:
        inside = api_accepts(req['branch'], req['kind']) is True
        if req['kind'] == 'create_branch' and 'branch_from' in args:
            inside = inside and api_accepts_from(args['branch_from'])
    if inside:
        vs = []
        if req['kind'] == 'create_branch':
            vs += mc.mon_create(world, ev, before, rec, after)
            if chained:
                vs += mc.mon_queues(world, {'kind': 'rebuild_queues'},
                                    dict(before, refs=dict(before['refs'], **{req['branch']: after['refs'].get(req['branch'])})),
                                    rec, after, queue_order)
        elif req['kind'] == 'delete_branch':
            vs += mc.mon_delete(world, ev, before, rec, after)
        elif req['kind'] in ('rebuild_queues', 'delete_queues'):
            vs += mc.mon_queues(world, ev, before, rec, after, queue_order)
        vs += mc.mon_refusal(world, ev, before, rec, after)
        if fault is not None:
            # a refused remote operation is outside the quantifier of C20: counted, compared with the model only
            for v in vs:
                out['hist']['under_fault:' + v['key']] = out['hist'].get('under_fault:' + v['key'], 0) + 1
            vs = []
        for v in vs:
            out['violations'].append({'input': inp, 'detail': v})
    if st == 'JobSuccess' or (st in mc.REFUSALS and isite not in (None, 'create_branch:0', 'delete_branch:3')):
        out['nontrivial'].append('%s|%s|%s|%s|%s|%s' % (wspec['layout'], uq, req['kind'], req.get('shape'),
                                                        (req.get('bf') or {}).get('t'), isite))
    if len(out['samples']) < 2:
        out['samples'].append({'world': wspec['id'], 'request': req, 'status': st, 'site': isite, 'model': w[:4]})
    return rec


def _worker(task):
    wspec, reqs_idx, exe, tier_budget, faults = task
    os.environ['PYTHONHASHSEED'] = '0'
    from lib import sysworld
    out = {'world': wspec['id'], 'evaluations': 0, 'mismatch': [], 'violations': [], 'hist': {}, 'nontrivial': [],
           'samples': [], 'error': None, 'wall': 0.0, 'n_requests': 0}
    t0 = time.time()
    world = None
    try:
        model = core.Model(exe)
        world = sysworld.World(wspec['cfg'])
        install_site_probe(world)
        run_setup(world, wspec['setup'])
        sites = site_table()
        refs, tags = world.refs(), world.tags()
        queue_order = queue_order_of(world, refs)
        reqs = requests_for(refs, tags, wspec['cfg']['use_queue'])
        out['n_requests'] = len(reqs)
        chosen = reqs if reqs_idx is None else [reqs[i % len(reqs)] for i in reqs_idx]
        if reqs_idx is not None and wspec['cfg']['use_queue'] and any(n.startswith('q/') for n in refs):
            # q/* branches on the remote: always try to delete every existing destination branch (with and without
            # a queue of its own) - the job checks q/* branches out before it tags the branch to delete
            forced = [r for r in reqs if r['kind'] == 'delete_branch' and r.get('shape') == 'existing']
            if len(queue_order) >= 2:
                # several queued pull requests: always rebuild the queues, directly and through the creation of the
                # newest development branch (re-submission order)
                forced += [r for r in reqs if r['kind'] == 'rebuild_queues' or
                           (r['kind'] == 'create_branch' and r.get('shape') == 'newer' and r['bf']['t'] == 'none')]
            chosen = chosen + [r for r in forced if r not in chosen]
        if reqs_idx is not None and str(wspec.get('pre', '')).endswith(('tagged_tip', 'tagged_elsewhere')):
            forced = [r for r in reqs if r['kind'] == 'delete_branch' and r.get('shape') == 'existing']
            chosen = chosen + [r for r in forced if r not in chosen]
        snap = world.snapshot()
        first = True
        for req in chosen:
            if not first:
                world.restore(snap)
            first = False
            evaluate(world, model, wspec, req, sites, queue_order, out)
        for f in faults:
            world.restore(snap)
            cand = [r for r in reqs if r['kind'] == f['kind'] and r.get('shape') == f['shape']
                    and (r.get('bf') or {'t': 'none'})['t'] == 'none']
            if cand:
                r = cand[0]
                evaluate(world, model, wspec, r, sites, queue_order, out,
                         fault={'op': f['op'], 'ref': r['branch'] if f['ref'] == 'branch' else f['ref']})
                if f['kind'] == 'delete_branch':
                    # the same request again, nothing refused: the archive tag is on the tip, the job resumes
                    evaluate(world, model, wspec, dict(r, shape='retry-after-refusal'), sites, queue_order, out)
        world.drop_snapshot(snap)
    except Exception:
        out['error'] = traceback.format_exc()[-2500:]
    finally:
        if world is not None:
            world.close()
    out['wall'] = time.time() - t0
    return out


def corpus():
    return [json.load(open(f)) for f in sorted(glob.glob(os.path.join(core.VERIF, 'corpus', ID, '*.json')))]


def _replay_worker(task):
    scen, exe = task
    os.environ['PYTHONHASHSEED'] = '0'
    from lib import sysworld
    out = {'world': scen.get('world', 'replay'), 'evaluations': 0, 'mismatch': [], 'violations': [], 'hist': {},
           'nontrivial': [], 'samples': [], 'error': None, 'wall': 0.0, 'n_requests': 1}
    world = None
    try:
        model = core.Model(exe)
        world = sysworld.World(scen['cfg'])
        install_site_probe(world)
        run_setup(world, scen['setup'])
        refs = world.refs()
        queue_order = queue_order_of(world, refs)
        wspec = {'id': scen.get('world', 'replay'), 'cfg': scen['cfg'], 'setup': scen['setup'],
                 'layout': scen.get('world', 'replay').split('|')[0], 'pre': scen.get('pre')}
        evaluate(world, model, wspec, scen['request'], site_table(), queue_order, out, fault=scen.get('fault'))
    except Exception:
        out['error'] = traceback.format_exc()[-2500:]
    finally:
        if world is not None:
            world.close()
    return out


def _collect(ctx, results):
    for r in results:
        ctx.evaluations += r['evaluations']
        for k, v in r['hist'].items():
            ctx.count(k, v)
        for k in r['nontrivial']:
            ctx.seen_nontrivial(k)
        if r['error']:
            ctx.mismatch({'world': r['world']}, r['error'], None, 'scenario-harness-crash')
        for m in r['mismatch']:
            ctx.mismatch(m['input'], m['impl'], m['model'], m['function'])
        for v in r['violations']:
            ctx.violation(v['input'], 'the statement of C20 holds for this job', v['detail'], v['detail']['what'],
                          key=v['detail']['key'])
        for s in r['samples']:
            ctx.sample(s, limit=4)
        ctx.count('worlds')


FAULTS = [
    # the server refuses the deletion of the destination branch: the archive tag is already pushed
    {'kind': 'delete_branch', 'shape': 'existing', 'op': 1, 'ref': 'branch'},
    # the server refuses the new branch
    {'kind': 'create_branch', 'shape': 'newer', 'op': 0, 'ref': 'branch'},
]


WRITTEN_AGAINST = (r'^development/(\d+)\.(\d+)\Z|^stabilization/(\d+)\.(\d+)\.(\d+)\Z|^hotfix/(\d+)\.(\d+)\.(\d+)\Z',
                   r'^[a-fA-F0-9]*\Z|^development/(\d+)\.(\d+)\Z')


def _num(x):
    return x != '' and all(c in '0123456789' for c in x)


def grammar_branch(n):
    """The API grammar for branch names, without regular expressions (ASCII digits)."""
    for head, k in (('development/', 2), ('stabilization/', 3), ('hotfix/', 3)):
        if n.startswith(head):
            parts = n[len(head):].split('.')
            return len(parts) == k and all(_num(x) for x in parts)
    return False


def grammar_from(n):
    return all(c in '0123456789abcdefABCDEF' for c in n) or \
        (n.startswith('development/') and len(n[12:].split('.')) == 2 and all(_num(x) for x in n[12:].split('.')))


def grammar_probe(ctx):
    """The live API regexes against the grammar the quantifier is read with (tripwire: the literals)."""
    live = tuple(api_patterns())
    escalate = live != WRITTEN_AGAINST
    if escalate:
        ctx.notes.append('API regex literals differ from the ones this check was written against: %r' % (live,))
    heads = ['development/', 'stabilization/', 'hotfix/', 'release/', 'q/', 'Development/', ' development/', '']
    vers = ['4', '4.3', '4.3.1', '4.3.1.0', '04.03', '4.', '.3', '4..3', '4.x', '4.3 ', '4.3\n', '', '10.0', '4.3.18',
            '4-3', '4.3.1.', 'a.b', '4.3a', '١.٢']
    if escalate:
        vers += ['%s%s%s' % (a, sep, b) for a in ('4', '44', '') for sep in ('.', '..', ',') for b in ('3', '33', '')]
    for h in heads:
        for v in vers:
            n = h + v
            ctx.count('grammar_probe')
            want = grammar_branch(n) if n.isascii() else None
            if want is not None and api_accepts(n) != want:
                ctx.mismatch({'name': n}, api_accepts(n), want, 'API grammar (branch)')
    for n in ['', 'abc', 'ABCDEF0123', 'xyz', 'abc\n', 'development/4.3', 'development/4', 'development/4.3.1',
              'stabilization/4.3.1', 'deadbeef ', 'g', '0', 'development/4.3\n', 'development/04.3']:
        ctx.count('grammar_probe')
        if api_accepts_from(n) != grammar_from(n):
            ctx.mismatch({'branch_from': n}, api_accepts_from(n), grammar_from(n), 'API grammar (branch_from)')


def run(ctx):
    if ctx.model is None:
        ctx.notes.append('extracted model unavailable: correspondence and monitors not run')
        return
    exe = ctx.model.exe
    ws = worlds(ctx)
    per_world = 6 if ctx.quick else 26
    n_worlds = 16 if ctx.quick else len(ws)
    rng = ctx.rng
    if ctx.quick:
        # one world of every layout x queue mode first, then random ones
        must = [w for w in ws if w['pre'] == 'none' and w['nq'] == (2 if w['cfg']['use_queue'] and
                w['layout'] in ('plain', 'hotfix', 'stab', 'mixed') else 0)]
        three = [w for w in ws if w.get('perm') and w['perm'] != sorted(w['perm'])]
        rng.shuffle(three)
        picked = []
        for lay in ('plain', 'hotfix', 'stab'):
            picked += [w for w in three if w['layout'] == lay][:1]
        # the hotfix pull request with the highest id, queued last: queued_prs lists it first
        picked += [w for w in ws if w.get('perm') == [0, 1, 2] and w['layout'] == 'hotfix']
        picked += [w for w in ws if w['pre'] in ('tagged_tip', 'tagged_elsewhere') and w['cfg']['use_queue']]
        must = must + picked
        n_worlds = max(n_worlds, len(must) + 4)
        rest = [w for w in ws if w not in must]
        rng.shuffle(rest)
        chosen = (must + rest)[:n_worlds]
    else:
        chosen = ws
    tasks = []
    for i, w in enumerate(chosen):
        idx = [rng.randrange(10 ** 6) for _ in range(per_world)]
        faults = FAULTS if (not ctx.quick or i < 2) else []
        tasks.append((w, idx, exe, per_world, faults))
    ctx.rule = ('corpus first; then %d worlds out of the family layout {plain, stabilization, hotfix line, major-only, '
                'mixed, single} x queues on/off x 0-2 queued pull requests (hotfix queues included) x preliminary '
                'admin jobs {none, archived development / stabilization / hotfix branch, leading-zero stabilization, '
                'two-digit minor, merged queue, archive tag already on the tip / elsewhere} + worlds with three pull requests '
                'opened first and queued in every order (hotfix pull request with the highest id included); in each world %d requests drawn from: create/delete x {older, '
                'between, newer, existing, archived, stabilization next/skipped/wrong/released/orphan patch, hotfix with/without '
                'start tag} x branch_from {absent, first/last development branch, tip/parent of the last one, tip '
                'of a middle one, feature branch tip, unknown sha, missing branch}, rebuild/delete/force-merge '
                'queues, names outside the API grammar (model only); every request is run from the same snapshot '
                'of the world; evaluation = one real job; non-trivial = distinct (layout, queues, job, shape, '
                'branch_from, raise site) among jobs that end past the existence test; in worlds with q/* branches '
                'every existing destination branch is additionally deleted' % (len(chosen), per_world))
    grammar_probe(ctx)
    stale_cache(ctx)
    scens = corpus()
    ctx.count('corpus_scenarios', len(scens))
    mp = get_context('fork')
    with mp.Pool(16) as pool:
        r1 = pool.map_async(_replay_worker, [(sc, exe) for sc in scens], chunksize=1)
        r2 = pool.map_async(_worker, tasks, chunksize=1)
        _collect(ctx, r1.get())
        results = r2.get()
    _collect(ctx, results)
    ctx.extra['worlds_in_family'] = len(ws)
    ctx.extra['requests_per_world'] = sorted(set(r['n_requests'] for r in results))
    ctx.extra['slowest_world_s'] = round(max(r['wall'] for r in results), 1)


def stale_cache_histories(ks):
    """A destination branch is archived by a delete-branch job (the robot's mirror cache, refreshed at the start of
    that job, still holds it), then a queue delete / rebuild job runs while one of its first git commands - the
    refresh of the cache among them - fails once.  Whatever the job answers, it may only touch q/* branches."""
    cfg = {'layout': LAYOUTS['stab'], 'use_queue': True, 'skip_queue': False, 'no_octopus': False, 'peers': 0,
           'leaders': 0, 'need_author': False, 'build_key': 'pre-merge', 'always_prs': True, 'always_branches': True,
           'cmd_line_options': []}
    src = 'bugfix/TEST-1'
    pre = [{'e': 'create_pr', 'src': src, 'dst': 'development/5.1', 'label': 'c1'}, {'e': 'job_pr', 'pr': 1},
           {'e': 'build', 'ref': src, 'state': 'SUCCESSFUL'}, {'e': 'build', 'ref': 'w/10.0/' + src, 'state': 'SUCCESSFUL'},
           {'e': 'job_pr', 'pr': 1}]
    out = []
    for victim in ('stabilization/5.1.4', 'stabilization/4.3.18'):
        for kind in ('delete_queues', 'rebuild_queues'):
            for k in ks:
                out.append({'cfg': cfg, 'family': 'c20-stale-cache', 'events': pre + [
                    {'e': 'job_api', 'kind': 'delete_branch', 'args': {'branch': victim}},
                    {'e': 'job_api', 'kind': kind, 'fault': {'mode': 'git_fail', 'cmd_index': k}},
                    {'e': 'job_api', 'kind': kind}]})
    return out


def stale_cache(ctx):
    from lib import sysrun
    hs = stale_cache_histories(range(0, 3) if ctx.quick else range(0, 12))
    ctx.count('stale_cache_histories', len(hs))
    sysrun.run(ctx, [], 0, ['mon_c20_queue_jobs'], do_corr=False, replay_history=hs)


def replay(ctx, data):
    if isinstance(data.get('input'), dict) and isinstance(data['input'].get('history'), dict) \
            and data['input']['history'].get('family') == 'c20-stale-cache':
        from lib import sysrun
        sysrun.run(ctx, [0], 0, ['mon_c20_queue_jobs'], do_corr=False, replay_history=data['input']['history'])
        return
    inp = data['input']
    scen = {'world': inp.get('world', 'replay'), 'cfg': inp['cfg'], 'setup': inp['setup'],
            'request': inp['request'], 'fault': inp.get('fault')}
    _collect(ctx, [_replay_worker((scen, ctx.model.exe))])
