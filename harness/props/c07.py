"""C07 - only the right people can switch options on through comments.

PROVE  coq/Properties/C07.v: Model/Reactor.v (Reactor.handle_options, Reactor.handle_commands and
       gitwaterflow.handle_comments, line for line, over comment lists of any length and any text)
       against Spec/C07Spec.v (who may switch what on, what must block, what is not addressed to the
       robot), with the registry of Generated/Facts_C07.v as data.
GEN    Facts_C07.v: the whole live Reactor.__callbacks__ after gwf.setup({}) - per keyword: option or
       command, privileged, authored, default, which handler (generic set_option / after_pull_request /
       the five command functions, anything else: fail closed), how many arguments the handler accepts
       (inspect.signature); the shape of add_option.set_option and of the default=defaults.get(key, False)
       wiring in setup() (AST, fail closed); the except -> message class tables of the two loops of
       handle_comments (AST); the regex literals of handle_options / handle_commands as tripwires.
CORR   the real gitwaterflow.handle_comments(job) on a stub job: SimpleNamespace with
       settings = the real SettingsDict chained as in Job.__init__ (job map, bert-e map with robot and
       admins), pull_request = SimpleNamespace(author, comments=[SimpleNamespace(author, text)]),
       bert_e.client.login, active_options = the real property of bert_e/job.py.  Observable: the class
       name of the exception (or none) AND job.settings.maps[0] as it stands when the call returns or
       raises, restricted to the registered option keys (sets as sorted lists): what a refused comment
       had already written is what the active-options footer of the message shows.  bert_e.workflow.gitwaterflow.commands._reset is replaced by a stub raising
       StubReset(force) (outcome "Reset" / "ForceReset": the command was dispatched; what reset does is
       C15).  Bulk workers render templates through one cached jinja2 Environment (the original builds
       one per raise, 7 ms); the corpus and a sample run with the original render.
Monitor: the extracted specification against the implementation on the same inputs: (1) every bypass_*
       option / approve that differs from its default has a witness comment by the right person,
       (2) must_block => one of the four blocking messages, expected_block = Some cls => exactly cls,
       (3) removing a comment that is not addressed to the robot does not change the outcome (option
       phase; whole outcome when its author is not the robot).
"""
import ast
import inspect
import itertools
import json
import os
import time
from types import SimpleNamespace

from lib import core
from lib.coqgen import coq_str, coq_list, coq_bool

ID = 'C07'
COQ_CONE = ['Properties/C07.v']
EXTRACT = 'Extract/C07Extract.v'
DRIVER = 'ocaml/C07_driver.ml'
ASSUMPTIONS = [
    'comment texts, user names and the robot name are ASCII (code points < 128); Python treats some '
    'non-ASCII characters as white space / word characters, the model does not',
    'the robot name contains no regex metacharacter (handle_commands interpolates the prefix into a '
    'regular expression unescaped); the harness uses "robot"',
    'per-author grants (job.author_bypass) are not written to job.settings and are not part of '
    'handle_comments; command-line grants are the defaults installed by gwf.setup(defaults)',
    'what reset / force_reset do after being dispatched is outside this property (stubbed; see C15)',
]
TRUSTED = ['modelled by hand: the scanners for the three regular expressions and str.strip/split, the '
           'control flow of handle_options / handle_commands / handle_comments, what each registered '
           'handler does (Model/Reactor.v); data (registry, flags, defaults, arities, except tables) '
           'generated from /repo',
           'bulk workers render message templates through one cached jinja2 Environment (same loader, '
           'StrictUndefined, same files); commands._reset replaced by a stub that raises']

# the literals the scanners of Model/Reactor.v were written against (tripwires, DESIGN 2.1)
REGEX_WRITTEN_AGAINST = {
    'handle_options': [r'^/[\w=]+([\s,.\-:;|+]+/[\w=]+)*\s*$', r'[,.\-/:;|+]',
                       r'\s*(?P<keywords>(\s+[\w=]+)+)\s*$'],
    'handle_commands': [r'^/\w', r'%s[\s:]*(?P<command>[A-Za-z_]+[^= ,])(?P<args>.*)$'],
}

HANDLERS = {
    ('bert_e.reactor', 'Reactor.add_option.<locals>.set_option'): 'HSetOption',
    ('bert_e.workflow.gitwaterflow.commands', 'after_pull_request'): 'HAfterPullRequest',
    ('bert_e.workflow.gitwaterflow.commands', 'print_help'): 'HHelp',
    ('bert_e.workflow.gitwaterflow.commands', 'status'): 'HStatus',
    ('bert_e.workflow.gitwaterflow.commands', 'not_implemented'): 'HNotImplemented',
    ('bert_e.workflow.gitwaterflow.commands', 'reset'): 'HReset',
    ('bert_e.workflow.gitwaterflow.commands', 'force_reset'): 'HForceReset',
}

ROBOT = 'robot'
BLOCKING = ('UnknownCommand', 'NotEnoughCredentials', 'NotAuthor', 'IncorrectCommandSyntax')


# =========================================================================================== GEN

def _func(tree, name):
    found = [n for n in ast.walk(tree) if isinstance(n, ast.FunctionDef) and n.name == name]
    if len(found) != 1:
        raise ValueError('expected exactly one function %s, found %d' % (name, len(found)))
    return found[0]


def _coq_value(v):
    if v is True or v is False:
        return '(VBool %s)' % coq_bool(v)
    if v is None:
        return 'VNone'
    if isinstance(v, str):
        return '(VStr %s)' % coq_str(v)
    if isinstance(v, (set, frozenset)) and all(isinstance(x, str) for x in v):
        return '(VSet %s)' % coq_list(map(coq_str, sorted(v)))
    raise ValueError('default of unexpected shape: %r' % (v,))


def _maxargs(fn):
    """Positional arguments accepted after the job; None when *args is accepted."""
    params = list(inspect.signature(fn).parameters.values())
    if not params or params[0].kind not in (params[0].POSITIONAL_ONLY, params[0].POSITIONAL_OR_KEYWORD):
        raise ValueError('handler without a job parameter: %r' % fn)
    n = 0
    for p in params[1:]:
        if p.kind == p.VAR_POSITIONAL:
            return None
        if p.kind in (p.POSITIONAL_ONLY, p.POSITIONAL_OR_KEYWORD):
            n += 1
        elif p.kind == p.KEYWORD_ONLY and p.default is p.empty:
            raise ValueError('handler with a required keyword-only parameter: %r' % fn)
    return n


def _check_set_option_shape(tree):
    """add_option's closure must be:  def set_option(job, arg=True): job.settings[key] = arg"""
    add = _func(tree, 'add_option')
    inner = [n for n in add.body if isinstance(n, ast.FunctionDef)]
    if len(inner) != 1 or inner[0].name != 'set_option':
        raise ValueError('add_option: unexpected inner functions')
    f = inner[0]
    a = f.args
    if ([x.arg for x in a.args] != ['job', 'arg'] or a.vararg or a.kwarg or a.kwonlyargs or a.posonlyargs
            or len(a.defaults) != 1 or not isinstance(a.defaults[0], ast.Constant)
            or a.defaults[0].value is not True):
        raise ValueError('set_option: unexpected signature')
    if len(f.body) != 1 or ast.dump(f.body[0]) != ast.dump(ast.parse('job.settings[key] = arg').body[0]):
        raise ValueError('set_option: unexpected body')
    # and add_option registers exactly that closure with its own flags
    calls = [n for n in ast.walk(add) if isinstance(n, ast.Call) and getattr(n.func, 'attr', '') == 'set_callback']
    want = ast.dump(ast.parse('cls.set_callback(key, Option(set_option, default, help_, privileged, authored))')
                    .body[0].value)
    if len(calls) != 1 or ast.dump(calls[0]) != want:
        raise ValueError('add_option: unexpected registration')


def _check_after_pull_request_shape(tree):
    f = _func(tree, 'after_pull_request')
    a = f.args
    if ([x.arg for x in a.args] != ['job', 'pr_id'] or a.vararg or a.kwonlyargs or a.posonlyargs
            or a.kwarg is None or len(a.defaults) != 1 or not isinstance(a.defaults[0], ast.Constant)
            or a.defaults[0].value is not None):
        raise ValueError('after_pull_request: unexpected signature')


def _setup_wiring(tree):
    """Keys registered by setup() with default=defaults.get(<same key>, False)."""
    f = _func(tree, 'setup')
    keys = []
    for node in f.body:
        call = node.value if isinstance(node, ast.Expr) else None
        if not (isinstance(call, ast.Call) and isinstance(call.func, ast.Attribute)
                and call.func.attr == 'add_option' and getattr(call.func.value, 'id', '') == 'Reactor'):
            raise ValueError('setup(): statement that is not Reactor.add_option(...)')
        if not call.args or not isinstance(call.args[0], ast.Constant) or not isinstance(call.args[0].value, str):
            raise ValueError('setup(): add_option without a literal key')
        key = call.args[0].value
        kw = {k.arg: k.value for k in call.keywords}
        want = ast.dump(ast.parse('defaults.get(%r, False)' % key).body[0].value)
        if 'default' not in kw or ast.dump(kw['default']) != want:
            raise ValueError('setup(): default of %s is not defaults.get(%r, False)' % (key, key))
        keys.append(key)
    if len(set(keys)) != len(keys):
        raise ValueError('setup(): a key registered twice')
    return keys


def _renders(cls, kwnames):
    """Does messages.<cls>(**those keyword arguments) render its template (StrictUndefined)?"""
    from bert_e import exceptions as messages
    from jinja2.exceptions import UndefinedError
    c = getattr(messages, cls)
    if not (isinstance(c, type) and issubclass(c, messages.TemplateException)):
        raise ValueError('%s is not a TemplateException' % cls)
    dummy = {n: ([] if n == 'active_options' else False if n in ('self_pr', 'authored') else 'x')
             for n in kwnames}
    try:
        c(**dummy)
        return True
    except UndefinedError:
        return False


def _except_tables(tree):
    """[(caught class, raised message class, whether the message renders with the keyword arguments
    passed)] of the try statements of the two loops of handle_comments."""
    f = _func(tree, 'handle_comments')
    loops = [n for n in f.body if isinstance(n, ast.For)]
    if len(loops) != 2:
        raise ValueError('handle_comments: expected two for loops')
    tables, called = [], []
    for loop in loops:
        tries = [n for n in loop.body if isinstance(n, ast.Try)]
        if len(tries) != 1 or tries[0].orelse or tries[0].finalbody or len(tries[0].body) != 1:
            raise ValueError('handle_comments: unexpected try statement')
        body = tries[0].body[0]
        if not (isinstance(body, ast.Expr) and isinstance(body.value, ast.Call)
                and getattr(body.value.func.value, 'id', '') == 'reactor'):
            raise ValueError('handle_comments: try body is not a reactor call')
        called.append(body.value.func.attr)
        tab = []
        for h in tries[0].handlers:
            if not isinstance(h.type, ast.Name) or len(h.body) != 1 or not isinstance(h.body[0], ast.Raise):
                raise ValueError('handle_comments: unexpected except clause')
            exc = h.body[0].exc
            if not (isinstance(exc, ast.Call) and isinstance(exc.func, ast.Attribute)
                    and getattr(exc.func.value, 'id', '') == 'messages'):
                raise ValueError('handle_comments: except clause does not raise messages.X(...)')
            if exc.args or any(k.arg is None for k in exc.keywords):
                raise ValueError('handle_comments: message built with positional or ** arguments')
            tab.append((h.type.id, exc.func.attr, _renders(exc.func.attr, [k.arg for k in exc.keywords])))
        tables.append(tab)
    if called != ['handle_options', 'handle_commands']:
        raise ValueError('handle_comments: loops call %r' % called)
    return tables


def _regex_literals(tree):
    out = {}
    for name in ('handle_options', 'handle_commands'):
        f = _func(tree, name)
        lits = []
        for n in ast.walk(f):
            if isinstance(n, ast.Call) and isinstance(n.func, ast.Attribute) and getattr(n.func.value, 'id', '') == 're':
                a0 = n.args[0]
                if isinstance(a0, ast.Constant) and isinstance(a0.value, str):
                    lits.append((n.lineno, n.col_offset, a0.value))
                elif isinstance(a0, ast.Name):
                    pass            # the 'regex' variable of handle_commands, collected below
                else:
                    raise ValueError('%s: regex argument of unexpected shape' % name)
            if isinstance(n, ast.Assign) and getattr(n.targets[0], 'id', '') == 'regex':
                v = n.value
                if not (isinstance(v, ast.BinOp) and isinstance(v.op, ast.Mod) and isinstance(v.left, ast.Constant)):
                    raise ValueError('%s: regex assignment of unexpected shape' % name)
                lits.append((n.lineno, n.col_offset, v.left.value))
        out[name] = [l for _, _, l in sorted(lits)]
    return out


def registry_snapshot():
    """The live registry after setup({}): list of dict rows in registration order."""
    import bert_e.workflow.gitwaterflow as gwf
    from bert_e.reactor import Reactor, Option, Command
    gwf.setup({})
    rows = []
    for key, cb in Reactor.__callbacks__.items():
        if not isinstance(key, str):
            raise ValueError('registry key that is not a string: %r' % (key,))
        if isinstance(cb, Option):
            kind = 'KOption'
        elif isinstance(cb, Command):
            kind = 'KCommand'
        else:
            raise ValueError('registry value of unexpected type for %s: %r' % (key, cb))
        hid = (getattr(cb.handler, '__module__', None), getattr(cb.handler, '__qualname__', None))
        if hid not in HANDLERS:
            raise ValueError('handler of %s is not one the model knows: %r' % (key, hid))
        handler = HANDLERS[hid]
        if handler == 'HSetOption':
            cells = [c.cell_contents for c in (cb.handler.__closure__ or ())]
            if cells != [key]:
                raise ValueError('set_option closure of %s writes %r' % (key, cells))
        rows.append({'key': key, 'kind': kind, 'privileged': cb.privileged, 'authored': cb.authored,
                     'default': cb.default if kind == 'KOption' else None, 'handler': handler,
                     'maxargs': _maxargs(cb.handler)})
    return rows


def _bypass_list():
    # observed on the loader itself (the row it builds for a user who lists nothing), not read off a class attribute
    from bert_e.settings import PrAuthorsOptions
    return [str(x) for x in PrAuthorsOptions().deserialize({'probe': []})['probe']]


def gen_facts(ctx):
    reactor_src = open(os.path.join(core.REPO, 'bert_e/reactor.py')).read()
    commands_src = open(os.path.join(core.REPO, 'bert_e/workflow/gitwaterflow/commands.py')).read()
    gwf_src = open(os.path.join(core.REPO, 'bert_e/workflow/gitwaterflow/__init__.py')).read()
    rt, ct, gt = ast.parse(reactor_src), ast.parse(commands_src), ast.parse(gwf_src)
    _check_set_option_shape(rt)
    _check_after_pull_request_shape(ct)
    wired = _setup_wiring(ct)
    rows = registry_snapshot()
    generic = [r['key'] for r in rows if r['handler'] == 'HSetOption']
    if sorted(generic) != sorted(wired):
        raise ValueError('options using set_option %r are not the ones setup() wires to the command line %r'
                         % (sorted(generic), sorted(wired)))
    opt_tab, cmd_tab = _except_tables(gt)
    lits = _regex_literals(rt)
    ctx.extra['regex_literals'] = lits
    ctx.extra['regex_literals_changed'] = lits != REGEX_WRITTEN_AGAINST
    entries = []
    for r in rows:
        entries.append('mk_entry %s %s %s %s %s %s %s' % (
            coq_str(r['key']), r['kind'], coq_bool(r['privileged']), coq_bool(r['authored']),
            _coq_value(r['default']), r['handler'],
            'None' if r['maxargs'] is None else '(Some %d)' % r['maxargs']))
    pairs = lambda tab: coq_list('(%s, (%s, %s))' % (coq_str(a), coq_str(b), coq_bool(r)) for a, b, r in tab)
    text = '''(* GENERATED on every run by harness/props/c07.py from %s - do not edit *)
From Coq Require Import List String.
Import ListNotations.
Open Scope string_scope.
(* what a setting can hold: False/True, None, a string (keyword=arg), a set of strings *)
Inductive value := VBool (b : bool) | VNone | VStr (s : string) | VSet (l : list string).
Inductive kind := KOption | KCommand.
(* which function is registered: the generic closure of Reactor.add_option, or a function of commands.py *)
Inductive handler := HSetOption | HAfterPullRequest | HHelp | HStatus | HNotImplemented | HReset | HForceReset.
Record entry := mk_entry { e_key : string; e_kind : kind; e_priv : bool; e_auth : bool;
                           e_default : value; e_handler : handler; e_maxargs : option nat }.
(* Reactor.__callbacks__ after gwf.setup({}), in registration order *)
Definition registry : list entry :=
  [ %s ].
(* except clause -> (message class, does the message render with the keyword arguments it is given:
   templates are rendered with StrictUndefined, a missing variable is a jinja2 UndefinedError);
   first loop (options) and second loop (commands) of handle_comments *)
Definition options_except : list (string * (string * bool)) := %s.
Definition commands_except : list (string * (string * bool)) := %s.
(* tripwires: the regex literals found in handle_options / handle_commands *)
Definition regex_handle_options : list string := %s.
Definition regex_handle_commands : list string := %s.
(* the bypass names of bert_e/settings.py (PrAuthorsOptions), observed on the live loader *)
Definition pr_author_bypass_list : list string := %s.
''' % (core.REPO, ';\n    '.join(entries), pairs(opt_tab), pairs(cmd_tab),
       coq_list(map(coq_str, lits['handle_options'])), coq_list(map(coq_str, lits['handle_commands'])),
       coq_list(map(coq_str, _bypass_list())))
    return {'Generated/Facts_C07.v': text}


# =========================================================================================== IMPL

_S = {}


def _impl():
    """Import bert_e once, install the stubs; returns the namespace of what the driver needs."""
    if _S:
        return _S
    import logging
    logging.getLogger('bert_e').setLevel(logging.CRITICAL + 1)   # "Command ignored" warnings, per comment
    import bert_e.workflow.gitwaterflow as gwf
    from bert_e.workflow.gitwaterflow import commands
    from bert_e import exceptions as ex
    from bert_e.job import Job
    from bert_e.lib.settings_dict import SettingsDict
    from bert_e.reactor import Reactor

    class StubReset(Exception):
        def __init__(self, force):
            super().__init__('reset dispatched')
            self.force = force

    def _reset(job, force=False):
        raise StubReset(force)
    commands._reset = _reset

    class StubJob:
        # the real property of bert_e/job.py
        active_options = Job.__dict__['active_options']

    _S.update(gwf=gwf, ex=ex, SettingsDict=SettingsDict, Reactor=Reactor, StubReset=StubReset,
              StubJob=StubJob, cmdline=None, orig_render=ex.render, fast_render=None)
    return _S


def set_render(fast):
    S = _impl()
    if not fast:
        S['ex'].render = S['orig_render']
        return
    if S['fast_render'] is None:
        from jinja2 import Environment, FileSystemLoader, StrictUndefined
        from bert_e.lib.template_loader import TEMPLATE_DIR
        env = Environment(loader=FileSystemLoader(str(TEMPLATE_DIR)), undefined=StrictUndefined)

        def render(template, **kwargs):
            return env.get_template(template).render(**kwargs)
        S['fast_render'] = render
    S['ex'].render = S['fast_render']


def set_cmdline(cmdline):
    S = _impl()
    cmdline = tuple(cmdline)
    if S['cmdline'] != cmdline:
        S['gwf'].setup({k: True for k in cmdline})
        S['cmdline'] = cmdline


def _show_value(v):
    if v is True:
        return 'T'
    if v is False:
        return 'F'
    if v is None:
        return 'N'
    if isinstance(v, str):
        return 'S' + v.encode('latin-1', 'replace').hex()
    if isinstance(v, (set, frozenset)) and all(isinstance(x, str) for x in v):
        return 'L' + ','.join(sorted(x.encode('latin-1', 'replace').hex() for x in v))
    return '?' + repr(v)


def impl_outcome(case):
    """Run the real handle_comments on a stub job; canonical outcome string (see ocaml/C07_driver.ml)."""
    S = _impl()
    set_cmdline(case['cmdline'])
    job = S['StubJob']()
    job.settings = S['SettingsDict']({}, {'robot': case['robot'], 'admins': list(case['admins'])})
    job.bert_e = SimpleNamespace(client=SimpleNamespace(login=case['robot']))
    job.pull_request = SimpleNamespace(
        author=case['pr_author'],
        comments=[SimpleNamespace(author=a, text=t) for a, t in case['comments']])
    try:
        S['gwf'].handle_comments(job)
        tag = 'Ok'
    except S['StubReset'] as e:
        tag = 'Raise:ForceReset' if e.force else 'Raise:Reset'
    except S['ex'].TemplateException as e:
        tag = 'Raise:' + type(e).__name__
    except Exception as e:
        tag = 'Uncaught:' + type(e).__name__
    keys = S['Reactor'].get_options().keys()
    m = job.settings.maps[0]
    shown = sorted((k, _show_value(m[k])) for k in keys if k in m)
    return ';'.join([tag, str(len(shown))] + ['%s=%s' % kv for kv in shown if kv[1] != 'F'])


def live_defaults():
    S = _impl()
    return {k: _show_value(o.default) for k, o in S['Reactor'].get_options().items()}


# =========================================================================================== DOMAIN

def hx(s):
    return 'x' + s.encode('latin-1').hex()


def hlist(l):
    return ','.join(hx(x) for x in l) or '-'


def encode(case):
    return 'hc %s %s %s %s %s' % (hx(case['robot']), hlist(case['cmdline']), hx(case['pr_author']),
                                  hlist(case['admins']),
                                  ' '.join(hx(a) + ':' + hx(t) for a, t in case['comments']))


UNKNOWN = ['foo', 'bypass_everything', 'approved']
ARGFORMS = ['', '=x', '=1', '=', '=a=b', '=false', '=False', '=0', '=OFF', '=True']   # incl. the values people give booleans
AT_GAPS = [('@' + ROBOT, g) for g in (' ', '', ',', '/')] + [('@' + ROBOT + ':', g) for g in (' ', '', '/')]
LEADS = ['', ' ', '\n\t', 'please ']
TRAILS = ['', ' ', '\n', ' thanks', ',']
CONTEXTS = [(l, '') for l in LEADS] + [('', t) for t in TRAILS[1:]]
SEPS = ' ,.-:;|+'
AUTHORS = ['author', 'admin', 'boss', 'other', ROBOT]
ADMINS = ['admin', 'boss']
REPS = ['bypass_peer_approval', 'approve', 'wait', 'after_pull_request=7', 'after_pull_request', 'help',
        'reset', 'foo']
POOL_TEXTS = [
    '@robot bypass_peer_approval', '/bypass_build_status', '@robot approve', '/approve',
    '@robot: wait, unanimity', '/after_pull_request=3', '@robot after_pull_request', '@robot wait=a=b',
    '@robot foo', '/create_pull_requests;/bar', '@robot help', '/status', '@robot reset',
    '@robot build now', '@robot wait help', 'please @robot bypass_peer_approval', 'LGTM /approve',
    '@robotbypass_jira_check']
POOL_ESSENTIAL = [0, 2, 8, 10, 15]
RANDOM_ALPHABET = ['a', 'b', 'Z', '_', '1', '=', '/', ' ', '\t', '\n', '\x0b', '\x1c', '\r', ',', '.', '-', ':',
                   ';', '|', '+', '@', '@robot', '@robot:', 'approve', 'wait', 'help', 'reset',
                   'bypass_jira_check', 'after_pull_request', '!', '\x00', '~', '"', '\\', '(', '*', '$']


def mk_text(prefix, gap, kws, sep, lead='', trail=''):
    if prefix == '/':
        body = sep.join('/' + k for k in kws)
    else:
        body = prefix + gap + sep.join(kws)
    return lead + body + trail


def pr_author_for(authors):
    """'boss' is the admin who is the author: when he writes, the pull request is his."""
    return 'boss' if 'boss' in authors else 'author'


def mk_case(comments, cmdline=(), pr_author=None, admins=None, robot=ROBOT):
    comments = [tuple(c) for c in comments]
    return {'robot': robot, 'cmdline': list(cmdline),
            'pr_author': pr_author if pr_author is not None else pr_author_for([a for a, _ in comments]),
            'admins': list(ADMINS if admins is None else admins), 'comments': comments}


class Domain:
    """Indexable, duplicate-free enumeration of the quantifier's grammar + extra streams.
    strata: (name, size, getter(i) -> case, in_quantifier)"""

    def __init__(self, words, quick, seed, escalate=False):
        import random
        self.quick = quick
        rng = random.Random(seed)
        thorough_like = (not quick) or escalate
        s1 = list(dict.fromkeys(
            mk_text(p, g, [w + af], ' ', l, t)
            for w in words for af in ARGFORMS for p, g in AT_GAPS + [('/', '')] for l, t in CONTEXTS))
        s2 = list(dict.fromkeys(
            mk_text(p, ' ', [a, b], sep)
            for a in words for b in words for p in ('@' + ROBOT, '@' + ROBOT + ':', '/') for sep in SEPS))
        s3 = list(dict.fromkeys(
            mk_text(p, ' ', [a, b, c], sep)
            for a in REPS for b in REPS for c in REPS for p in ('@' + ROBOT, '@' + ROBOT + ':', '/')
            for sep in SEPS))
        singles = [(t, a) for t in s1 + s2 + s3 for a in AUTHORS]
        self.n_single_texts = (len(s1), len(s2), len(s3))
        if quick:
            keep = rng.randrange(9)
            singles = [x for i, x in enumerate(singles) if i % 9 == keep]
        self.singles = singles
        if quick:
            extra = [i for i in range(len(POOL_TEXTS)) if i not in POOL_ESSENTIAL]
            idx = sorted(POOL_ESSENTIAL + rng.sample(extra, 2))
            texts = [POOL_TEXTS[i] for i in idx]
        else:
            texts = POOL_TEXTS
        self.pool = [(a, t) for t in texts for a in AUTHORS]
        K = len(self.pool)
        # command-line grants: a sample of the single comments under three command lines
        cl_rng = random.Random(seed + 1)
        cl_src = [(t, a) for t in s1 + s3 for a in AUTHORS]
        n_cl = 2000 if quick else 12000
        self.cl_cases = [(cl_src[cl_rng.randrange(len(cl_src))],
                          [['bypass_peer_approval'], ['approve', 'wait'], ['bypass_build_status', 'no_octopus']][i % 3])
                         for i in range(n_cl)]
        self.seed = seed
        n_rand = 150000 if thorough_like else 10000
        n_beyond = 50000 if thorough_like else 3000
        self.strata = [
            ('single', len(self.singles), self._single, True),
            ('pairs', K * K, self._pair, True),
            ('triples', K * K * K, self._triple, True),
            ('cmdline', len(self.cl_cases), self._cmdline, True),
            ('random-text', n_rand, self._random_text, False),
            ('beyond', n_beyond, self._beyond, False),
        ]
        self.total = sum(s[1] for s in self.strata)

    def _single(self, i):
        t, a = self.singles[i]
        return mk_case([(a, t)])

    def _pair(self, i):
        K = len(self.pool)
        return mk_case([self.pool[i // K], self.pool[i % K]])

    def _triple(self, i):
        K = len(self.pool)
        return mk_case([self.pool[i // (K * K)], self.pool[(i // K) % K], self.pool[i % K]])

    def _cmdline(self, i):
        (t, a), cl = self.cl_cases[i]
        return mk_case([(a, t)], cmdline=cl)

    def _rand_text(self, rng):
        return ''.join(rng.choice(RANDOM_ALPHABET) for _ in range(rng.randint(0, 9)))

    def _random_text(self, i):
        import random
        rng = random.Random(self.seed * 1000003 + i)
        return mk_case([(rng.choice(AUTHORS), self._rand_text(rng))])

    def _beyond(self, i):
        """Outside the quantifier: longer lists, any admins / author / command line, garbage comments."""
        import random
        rng = random.Random(self.seed * 7000003 + i)
        people = AUTHORS + ['u5']
        n = rng.randint(0, 5)
        comments = []
        for _ in range(n):
            r = rng.random()
            if r < 0.6:
                t = rng.choice(POOL_TEXTS)
            elif r < 0.8:
                t = self._rand_text(rng)
            else:
                t, _a = self.singles[rng.randrange(len(self.singles))]
            comments.append((rng.choice(people), t))
        admins = [p for p in people if rng.random() < 0.35]
        cl = [k for k in ('bypass_peer_approval', 'approve', 'wait') if rng.random() < 0.15]
        return mk_case(comments, cmdline=cl, pr_author=rng.choice(people), admins=admins)

    def locate(self, j):
        for name, size, get, inq in self.strata:
            if j < size:
                return name, get(j), inq
            j -= size
        raise IndexError(j)


# =========================================================================================== CHECK

def parse_answer(ans):
    m, a, b, e, w = ans.split(' ')
    return m, a[1:], b[1:] == '1', (None if e[1:] == '-' else e[1:]), w[1:]


def outcome_tag(out):
    return out.split(';', 1)[0]


def outcome_settings(out):
    parts = out.split(';')
    return dict(p.split('=', 1) for p in parts[2:])


def monitor(case, out, addressed, must_block, expected, wbits, wkeys, defaults, rerun):
    """The clauses of Spec/C07Spec.v against the implementation's outcome.  Returns [(what, expected, observed)]."""
    bad = []
    tag = outcome_tag(out)
    st = outcome_settings(out)
    # clause 1: whatever the outcome, a bypass_* option / approve differs from its default only with a witness
    for k, bit in zip(wkeys, wbits):
        dflt = 'T' if k in case['cmdline'] else defaults.get(k, 'F')
        if st.get(k, 'F') != dflt and bit != '1':
            bad.append(('option %s differs from its default but no comment by the right person names it' % k,
                        '%s=%s' % (k, dflt), '%s=%s' % (k, st.get(k, 'F'))))
    # clause 2
    if must_block and not (tag.startswith('Raise:') and tag[6:] in BLOCKING):
        bad.append(('a request with an unknown / not permitted keyword did not block the pull request',
                    'Raise:one of %s' % '|'.join(BLOCKING), tag))
    if expected is not None and tag != 'Raise:' + expected:
        bad.append(('wrong explanation for the first offending keyword', 'Raise:' + expected, tag))
    # clause 3: dropping a comment that is not addressed to the robot changes nothing
    for i, bit in enumerate(addressed):
        if bit == '1':
            continue
        sub = dict(case)
        sub['comments'] = case['comments'][:i] + case['comments'][i + 1:]
        out2 = rerun(sub)
        if case['comments'][i][0] == case['robot']:
            # the robot's own message ends the command scan: only the options are comparable
            same = out.split(';', 1)[1] == out2.split(';', 1)[1]
        else:
            same = out == out2
        if not same:
            bad.append(('removing comment #%d (not addressed to the robot) changes the outcome' % i, out2, out))
    return bad


def _chunk(args):
    """Worker: cases [lo, hi) of the domain against model + spec."""
    lo, hi, fast = args
    dom = _S['domain']
    set_render(fast)
    model = core.Model(_S['exe'])
    names, cases, inqs = [], [], []
    for j in range(lo, hi):
        n, c, q = dom.locate(j)
        names.append(n)
        cases.append(c)
        inqs.append(q)
    answers = model.batch([encode(c) for c in cases])
    res = {'n': 0, 'mism': [], 'viol': [], 'n_mism': 0, 'n_viol': 0, 'counts': {}, 'nontrivial': 0, 'samples': [],
           'reruns': 0}
    cnt = res['counts']
    cache = {}

    def rerun(sub):
        res['reruns'] += 1
        return impl_outcome(sub)
    for name, case, inq, ans in zip(names, cases, inqs, answers):
        m_out, addressed, mb, exp, wbits = parse_answer(ans)
        out = impl_outcome(case)
        res['n'] += 1
        cnt['stratum=' + name] = cnt.get('stratum=' + name, 0) + 1
        cnt['len=%d' % len(case['comments'])] = cnt.get('len=%d' % len(case['comments']), 0) + 1
        tag = outcome_tag(out)
        cnt['outcome=' + tag] = cnt.get('outcome=' + tag, 0) + 1
        if '1' in addressed and inq:
            res['nontrivial'] += 1
        if out != m_out:
            res['n_mism'] += 1
            if len(res['mism']) < 5:
                res['mism'].append((case, out, m_out))
        if inq:
            for what, e, o in monitor(case, out, addressed, mb, exp, wbits, _S['wkeys'], _S['defaults'], rerun):
                res['n_viol'] += 1
                if len(res['viol']) < 5:
                    res['viol'].append((case, e, o, what))
        if (lo + res['n']) % 49999 == 0:
            res['samples'].append({'input': case, 'impl': out, 'model_and_spec': ans})
    set_cmdline(())
    return res


def corpus_cases():
    d = os.path.join(core.VERIF, 'corpus', ID)
    out = []
    for f in sorted(os.listdir(d)) if os.path.isdir(d) else []:
        if f.endswith('.json'):
            out.append((f, json.load(open(os.path.join(d, f)))))
    return out


def check_explicit(ctx, cases, label, in_quantifier=True, expects=None):
    """Explicit cases in this process, original template rendering."""
    set_render(False)
    answers = ctx.model.batch([encode(c) for c in cases])
    wkeys, defaults = _S['wkeys'], _S['defaults']
    for i, (case, ans) in enumerate(zip(cases, answers)):
        m_out, addressed, mb, exp, wbits = parse_answer(ans)
        out = impl_outcome(case)
        ctx.evaluations += 1
        ctx.count('stratum=' + label)
        if out != m_out:
            ctx.mismatch(case, out, m_out, 'handle_comments')
        if expects and expects[i] is not None and outcome_tag(out) != expects[i]:
            ctx.mismatch(case, out, expects[i], 'corpus expectation (impl outcome class)')
        if in_quantifier:
            for what, e, o in monitor(case, out, addressed, mb, exp, wbits, wkeys, defaults, impl_outcome):
                ctx.violation(case, e, o, what)
        if '1' in addressed:
            ctx.seen_nontrivial(json.dumps(case, sort_keys=True))
        ctx.sample({'input': case, 'impl': out, 'model_and_spec': ans, 'from': label}, limit=4)
    set_cmdline(())


def _prepare(ctx):
    S = _impl()
    set_cmdline(())
    S['exe'] = ctx.model.exe
    S['wkeys'] = ctx.model.batch(['wkeys'])[0].split(',')
    S['defaults'] = live_defaults()
    opts = list(S['Reactor'].get_options().keys())
    cmds = list(S['Reactor'].get_commands().keys())
    return opts, cmds


def job_sequence_tie(ctx, opts, cmds):
    """The stub job of the bulk streams gets its settings from the harness.  Here the jobs are the real ones, built as
    the server builds them (webhook.py: PullRequestJob(bert_e=..., pull_request=...), no settings argument), SEVERAL in
    one process: an entitled comment on one pull request, then the evaluation of another pull request on which nobody
    wrote anything - every option of that second job must have its default value (what a fresh process gives)."""
    S = _impl()
    from bert_e.job import PullRequestJob
    set_cmdline(())
    reg = S['Reactor'].get_options()
    bert_e = SimpleNamespace(settings=S['SettingsDict']({}, {'robot': ROBOT, 'admins': list(ADMINS),
                                                             'pr_author_options': {}}),
                             client=SimpleNamespace(login=ROBOT), project_repo=None, git_repo=None)

    def evaluate(pr_id, author, comments):
        pr = SimpleNamespace(id=pr_id, author=author,
                             comments=[SimpleNamespace(author=a, text=t) for a, t in comments])
        job = PullRequestJob(bert_e=bert_e, pull_request=pr)          # as bert_e/server/webhook.py does
        try:
            S['gwf'].handle_comments(job)
        except S['StubReset']:
            pass
        except S['ex'].TemplateException:
            pass
        import copy as _copy
        return {k: _copy.deepcopy(job.settings.maps[0].get(k)) for k in reg}, sorted(job.active_options)

    fresh, fresh_active = evaluate(1, 'dev0', [])
    for k, opt in reg.items():
        if fresh[k] != opt.default:
            ctx.violation({'jobs': [{'pr': 1, 'comments': []}], 'option': k}, repr(opt.default), repr(fresh[k]),
                          'an option of a job without comments does not have its default value',
                          key=core.canon({'what': 'job sequence: first job', 'option': k}))
    words = [w + a for w in opts for a in ('', '=3', '=True')] + cmds
    n = 0
    for w in words:
        for who in (ADMINS[0], 'dev1'):
            first = [(who, '@%s %s' % (ROBOT, w))]
            evaluate(2, 'dev1', first)
            got, active = evaluate(3, 'dev2', [])
            n += 2
            ctx.count('job_sequence_pairs')
            if got != fresh or active != fresh_active:
                diff = {k: (repr(fresh[k]), repr(got[k])) for k in got if got[k] != fresh[k]}
                ctx.violation({'jobs': [{'pr': 2, 'author': 'dev1', 'comments': first},
                                        {'pr': 3, 'author': 'dev2', 'comments': []}], 'admins': ADMINS},
                              {'options of the second job': 'defaults', 'active': fresh_active},
                              {'differ (default, got)': diff, 'active': active},
                              'an option written on one pull request is in effect on another pull request on which '
                              'nobody wrote it (jobs built as the webhook builds them, same process)',
                              key=core.canon({'what': 'job sequence: option carried over', 'options': sorted(diff)}))
    ctx.evaluations += n


def run(ctx):
    if ctx.model is None:
        ctx.notes.append('extracted model unavailable: correspondence and monitor not run')
        return
    t0 = time.time()
    from lib import authoropts, identity
    identity.check(ctx, 'handle_comments: comment author in admins, == pull request author')
    authoropts.check(ctx, kernel=True)   # "... or is granted by per-author settings": several authors in one settings file
    opts, cmds = _prepare(ctx)
    job_sequence_tie(ctx, opts, cmds)
    words = opts + cmds + UNKNOWN
    escalate = bool(ctx.extra.get('regex_literals_changed'))
    if escalate:
        ctx.notes.append('a regex literal of reactor.py differs from the one its scanner was written against: '
                         'random-text and beyond streams escalated to the thorough size')
    dom = Domain(words, ctx.quick, ctx.seed, escalate)
    _S['domain'] = dom
    ctx.rule = (
        'grammar of the quantifier: single comments = prefixes {@robot, @robot:, /} x [1 keyword from the %d '
        'registered options and commands + %d unknown words, x argument forms %r, x first gaps, x %d '
        'leading/trailing contexts | all ordered pairs of those words x 8 separators | all triples over %d '
        'class representatives x 8 separators] x 5 authors (%d/%d/%d texts); comment lists of length 2 and 3 in '
        'every order over a pool of %d (author, text) comments; the same under command-line grants; plus, '
        'outside the quantifier and compared with the model only, random texts over a hostile alphabet and '
        'random longer lists with arbitrary admins/author. quick keeps one residue class mod 9 of the single '
        'comments and a 7-text pool, both chosen by VERIF_SEED. non-trivial = case of the quantifier strata '
        '(duplicate-free by construction) in which at least one comment is addressed to the robot, so that '
        'the parser and the permission decision are reached'
        % (len(opts) + len(cmds), len(UNKNOWN), ARGFORMS, len(CONTEXTS), len(REPS),
           dom.n_single_texts[0], dom.n_single_texts[1], dom.n_single_texts[2], len(dom.pool)))
    ctx.exhaustive = not ctx.quick
    # corpus first (original render), then the witness of the refuted over-strong form of clause 3
    corpus = corpus_cases()
    if corpus:
        check_explicit(ctx, [mk_case(d['comments'], d.get('cmdline', ()), d.get('pr_author'), d.get('admins'))
                             for _, d in corpus], 'corpus',
                       expects=[d.get('expect') for _, d in corpus])
    # a sample of the domain with the original renderer
    step = max(1, dom.total // 300)
    sample_cases = [dom.locate(j) for j in range(0, dom.total, step)]
    check_explicit(ctx, [c for _, c, q in sample_cases if q], 'sample-original-render')
    # bulk
    import multiprocessing as mp
    nproc = min(16, os.cpu_count() or 1)
    size = max(500, min(8000, dom.total // (nproc * 8) + 1))
    tasks = [(lo, min(dom.total, lo + size), True) for lo in range(0, dom.total, size)]
    with mp.get_context('fork').Pool(nproc) as pool:
        for res in pool.imap_unordered(_chunk, tasks):
            ctx.evaluations += res['n'] + res['reruns']
            ctx.nontrivial_extra += res['nontrivial']
            for k, v in res['counts'].items():
                ctx.count(k, v)
            ctx.count('metamorphic_reruns', res['reruns'])
            for case, out, m_out in res['mism']:
                ctx.mismatch(case, out, m_out, 'handle_comments')
            if res['n_mism'] > len(res['mism']):
                ctx.count('corr_mismatch_not_listed', res['n_mism'] - len(res['mism']))
            for case, e, o, what in res['viol']:
                ctx.violation(case, e, o, what)
            if res['n_viol'] > len(res['viol']):
                ctx.count('spec_fail_not_listed', res['n_viol'] - len(res['viol']))
            for s in res['samples']:
                ctx.sample(s)
    set_cmdline(())
    ctx.extra['domain_sizes'] = {n: s for n, s, _, _ in dom.strata}
    ctx.extra['corr_wall_s'] = round(time.time() - t0, 1)


def replay(ctx, data):
    if ctx.model is None:
        ctx.notes.append('extracted model unavailable')
        return
    _prepare(ctx)
    inp = data.get('input')
    if not isinstance(inp, dict) and data.get('first_diverging_inputs'):
        inp = data['first_diverging_inputs'][0]['input']
    case = mk_case(inp['comments'], inp.get('cmdline', ()), inp.get('pr_author'), inp.get('admins'),
                   inp.get('robot', ROBOT))
    check_explicit(ctx, [case], 'replay')
