"""C19 - integration branches and pull requests are kept one-to-one with their PR.

PROVE  coq/Properties/C19.v over Model/Integration.v (hand-written mirror of integration.py, the integration
       part of branches.py, handle_pull_request / handle_parent_pull_request / handle_commit /
       handle_declined_pull_request, the removal of w/ branches on merge, the reset command) against
       Spec/C19Spec.v.  The full invariant is refuted (two open pull requests from one source branch share
       their w/ names); the partial theorems assume distinct source branches per open pull request.
GEN    Facts_C19.v: what the first number of a rendered integration pull request description is (template
       pull_request_description.md), the title format and its first argument, the w/ name format used by the
       three functions that build it, the default status filter of the host's get_pull_requests.
CORR   system histories on the real Bert-E (mock host + real git, lib/sysworld.py): after every job the
       extracted model is run on the abstract pre-state (pull requests + branch names) with the job's outcome
       class and must predict the abstract post-state: the set of w/ names and the whole pull request list
       (id, author class, source, destination, state, parent id of the description, id of the title).
       The model does not decide the gates: the outcome class is taken from the job status (table STAGE below);
       the gate of check_integration_branches IS modelled and checked in both directions.
       Harness-side observation (no change to /repo): gwf.check_integration_branches is wrapped to read the
       effective options the job computed, gwf._handle_pull_request to read which pull request an event ended
       up evaluating, queueing.close_queued_pull_request to read which pull requests a
       queue evaluation merged, mock.Repository.get_pull_requests to read the states the host reported at
       look-up time (the mock derives MERGED lazily from git ancestry: an input of the model, HostMerged).
Monitors (ctx.violation, written from the statement, lib/mon_c19.py) on the real dumps:
       OneToOne after every job (cross-checked with the extracted executable specification one_to_one_b, proved
       exact in C19_monitor_exact); an event on a child pull request / on a source or w/ tip leaves the same
       world as the event on the parent (twin run of the same history, bit-identical thanks to fixed dates);
       decline and merge clauses; a DECLINED pull request stays clean however often its events (on itself, on its
       declined children) are delivered again.
"""
import ast
import inspect
import json
import os
import random
import re
import time
import traceback
from multiprocessing import get_context

from lib import core, pipeline
from lib.coqgen import coq_str, coq_bool, coq_option, coq_Z

ID = 'C19'
COQ_CONE = ['Properties/C19.v', 'Properties/Pipeline.v']
EXTRACT = 'Extract/C19Extract.v'
DRIVER = 'ocaml/C19_driver.ml'
EXTRA_BINARIES = [pipeline.PIPELINE_BINARY]
ASSUMPTIONS = [
    'partial: C19_inv / C19_redirect_commit / C19_decline assume that open pull requests have pairwise distinct '
    'source branches (C19_inv_full and C19_decline_own_full are refuted; witness corpus/C19/same_source_*.json)',
    'the host is the repository\'s mock host: immediately consistent; it derives MERGED lazily from git ancestry, '
    'which the model takes as an input (HostMerged); a real host\'s eventual consistency is not modelled',
    'the targets of a destination (cascade) are an input of the model (property C09 computes them); the harness '
    'reads them off the destination branches of the remote',
    'gates other than check_integration_branches (approvals, builds, conflicts, queue) are inputs: the outcome '
    'class of every evaluation is taken from the job status',
    'users do not open pull requests from w/ branches and do not create w/ branches (DESIGN 5.0); C19_decline '
    'also assumes that nothing named w/<first target>/<source> exists',
    'names are structured in the model (Src / W / Dst / Q / Other): parsing branch names is property C18',
]
TRUSTED = ['modelled by hand: Model/Integration.v; abstraction of the real dump and the monitors: '
           'harness/lib/mon_c19.py; history generator and outcome classification: harness/props/c19.py']

# ---------------------------------------------------------------------------------------------- GEN


def _func(tree, name):
    for node in ast.walk(tree):
        if isinstance(node, ast.FunctionDef) and node.name == name:
            return node
    raise ValueError('function %s not found' % name)


def _w_formats(fn):
    """Literal format strings '...'.format(x.version, src) that start with 'w/' in a function."""
    res = []
    for node in ast.walk(fn):
        if (isinstance(node, ast.Call) and isinstance(node.func, ast.Attribute) and node.func.attr == 'format'
                and isinstance(node.func.value, ast.Constant) and isinstance(node.func.value.value, str)
                and node.func.value.value.startswith('w/')):
            args = node.args
            ok = (len(args) == 2 and isinstance(args[0], ast.Attribute) and args[0].attr == 'version'
                  and isinstance(args[1], ast.Name))
            res.append((node.func.value.value, ok, ast.unparse(node)))
    return res


def gen_facts(ctx):
    base = os.path.join(core.REPO, 'bert_e')
    # 1. the description template: which number comes first once rendered
    tmpl = open(os.path.join(base, 'templates/pull_request_description.md')).read()
    m = re.search(r'\{\{\s*pr\.id\s*\}\}', tmpl)
    if not m:
        raise ValueError('pull_request_description.md does not mention {{ pr.id }}')
    before = re.findall(r'\d+', tmpl[:m.start()])
    if re.search(r'\{\{|\{%', tmpl[:m.start()]):
        raise ValueError('template renders something before {{ pr.id }}: cannot tell the first number')
    leading = int(before[0]) if before else None
    # 2. get_or_create_pull_request: title format and arguments, render(...) arguments
    btree = ast.parse(open(os.path.join(base, 'workflow/gitwaterflow/branches.py')).read())
    cls = next(n for n in ast.walk(btree) if isinstance(n, ast.ClassDef) and n.name == 'IntegrationBranch')
    fn = _func(cls, 'get_or_create_pull_request')
    title_fmt, first_is_id = None, False
    for node in ast.walk(fn):
        if (isinstance(node, ast.Assign) and len(node.targets) == 1 and getattr(node.targets[0], 'id', '') == 'title'
                and isinstance(node.value, ast.BinOp) and isinstance(node.value.op, ast.Mod)
                and isinstance(node.value.left, ast.Constant) and isinstance(node.value.right, ast.Tuple)):
            title_fmt = node.value.left.value
            first = node.value.right.elts[0]
            first_is_id = (isinstance(first, ast.Attribute) and first.attr == 'id'
                           and getattr(first.value, 'id', '') == fn.args.args[1].arg)
    if title_fmt is None:
        raise ValueError('title assignment not found in get_or_create_pull_request')
    first_is_id = bool(first_is_id and re.match(r'^INTEGRATION \[PR#%s > %s\]', title_fmt))
    render_ok = False
    for node in ast.walk(fn):
        if isinstance(node, ast.Call) and getattr(node.func, 'id', '') == 'render':
            kw = {k.arg: k.value for k in node.keywords}
            render_ok = (isinstance(node.args[0], ast.Constant) and node.args[0].value == 'pull_request_description.md'
                         and getattr(kw.get('pr'), 'id', '') == fn.args.args[1].arg)
    if not render_ok:
        raise ValueError('render(pull_request_description.md, pr=<parent>) not found')
    # 3. the w/ name format, in the three functions that build it
    itree = ast.parse(open(os.path.join(base, 'workflow/gitwaterflow/integration.py')).read())
    gtree = ast.parse(open(os.path.join(base, 'workflow/gitwaterflow/__init__.py')).read())
    fmts = (_w_formats(_func(itree, 'get_integration_branches')) + _w_formats(_func(itree, 'create_integration_branches'))
            + _w_formats(_func(gtree, 'handle_declined_pull_request')))
    if len(fmts) != 3 or any(f != 'w/{}/{}' or not ok for f, ok, _ in fmts):
        raise ValueError('unexpected integration branch name construction: %r' % (fmts,))
    # 4. default status filter of the host
    from bert_e.git_host import mock, base as hostbase
    d1 = inspect.signature(mock.Repository.get_pull_requests).parameters['status'].default
    d2 = inspect.signature(hostbase.AbstractRepository.get_pull_requests).parameters['status'].default
    text = '''(* GENERATED on every run by harness/props/c19.py from /repo - do not edit *)
From Coq Require Import List String ZArith.
Import ListNotations.
Open Scope string_scope.
(* first number of the rendered pull_request_description.md: None = the parent's id ({{ pr.id }} comes first) *)
Definition description_leading_number : option Z := %s.
Definition title_format : string := %s.
Definition title_first_arg_is_parent_id : bool := %s.
Definition w_name_format : string := %s.
Definition get_pull_requests_default_open : bool := %s.
''' % (coq_option(leading, coq_Z), coq_str(title_fmt), coq_bool(first_is_id), coq_str(fmts[0][0]),
       coq_bool(d1 == 'OPEN' and d2 == 'OPEN'))
    return {'Generated/Facts_C19.v': text}


# ---------------------------------------------------------------------------------------------- outcome classes
# Order of the stages of gitwaterflow._handle_pull_request (and what each may raise), which fixes how far an
# evaluation went for a given job status:
#   early_checks            NothingToDo NotMyJob WrongDestination
#   send_greetings / handle_comments   UnknownCommand NotEnoughCredentials NotAuthor IncorrectCommandSyntax
#                           + commands: HelpMessage StatusReport CommandNotImplemented LossyResetWarning
#                           ResetComplete (reset ran: integration data removed)
#   check_dependencies      NothingToDo(wait) AfterPullRequest IncorrectPullRequestNumber
#   handle_declined_pull_request (DECLINED only)   PullRequestDeclined | NothingToDo
#   includes_commit / exists / check_commit_diff / cascade / compatibility / jira
#                           NothingToDo SourceBranchTooOld <cascade errors> IncompatibleSourceBranchPrefix <jira>
#   check_integration_branches   RequestIntegrationBranches
#   create_integration_branches (local)
#   already_in_queue -> handle_merge_queues   Merged | NothingToDo | QueueBuildFailed | <queue validation>
#   update_integration_branches   BranchHistoryMismatch (nothing pushed) | Conflict (the first ones pushed)
#   push(w/ branches) ; create_integration_pull_requests                        <- the creation point
#   check_pull_request_skew PullRequestSkewDetected ; check_approvals ApprovalRequired ;
#   check_build_status BuildFailed BuildNotStarted BuildInProgress ; QueueOutOfOrder ; add_to_queue QueueConflict ;
#   Queued ; merge_integration_branches -> SuccessMessage
# Everything not listed below is "before": no effect on branches / pull requests.
PAST_CREATION = {'PullRequestSkewDetected', 'ApprovalRequired', 'BuildFailed', 'BuildNotStarted',
                 'BuildInProgress', 'QueueOutOfOrder', 'QueueConflict', 'Queued'}
STAGE = {'SuccessMessage': 'MERGE', 'RequestIntegrationBranches': 'RI', 'ResetComplete': 'RESET',
         'PullRequestDeclined': 'DECL'}
STAGE.update({s: 'CREATED' for s in PAST_CREATION})
ERR_STATUS = {'ParentNotFound': {'ParentPullRequestNotFound'}, 'PrNotFound': {'Exception'},
              'OutOfFuel': {'RecursionError'}}


_KNOWN = []


def known_statuses():
    if not _KNOWN:
        from bert_e import exceptions as ex
        names = set(n for n, c in vars(ex).items() if isinstance(c, type) and issubclass(c, Exception))
        _KNOWN.append(names | {'OK', 'NOTDONE', 'NoSuchRef'})
    return _KNOWN[0]


def check_stage_table():
    """Fail closed when _handle_pull_request no longer has the stage order the table was derived from."""
    src = open(os.path.join(core.REPO, 'bert_e/workflow/gitwaterflow/__init__.py')).read()
    fn = _func(ast.parse(src), '_handle_pull_request')
    order = []
    for node in ast.walk(fn):
        if isinstance(node, ast.Call):
            name = getattr(node.func, 'id', None) or getattr(node.func, 'attr', None)
            if name:
                order.append((node.lineno, node.col_offset, name))
    names = [n for _, _, n in sorted(order)]

    def pos(n):
        if n not in names:
            raise ValueError('_handle_pull_request no longer calls %s' % n)
        return names.index(n)
    chain = ['early_checks', 'handle_comments', 'check_dependencies', 'handle_declined_pull_request',
             'check_integration_branches', 'create_integration_branches', 'update_integration_branches',
             'create_integration_pull_requests', 'check_approvals', 'check_build_status',
             'merge_integration_branches']
    for a, b in zip(chain, chain[1:]):
        if not pos(a) < pos(b):
            raise ValueError('stage order changed: %s is no longer before %s' % (a, b))
    raised = set()
    for node in ast.walk(fn):
        if isinstance(node, ast.Raise) and node.exc is not None:
            c = node.exc.func if isinstance(node.exc, ast.Call) else node.exc
            raised.add(getattr(c, 'attr', getattr(c, 'id', '?')))
    unknown = raised - {'NothingToDo', 'QueueOutOfOrder', 'Queued', 'SuccessMessage'}
    if unknown:
        raise ValueError('_handle_pull_request raises classes the stage table does not know: %r' % unknown)


# ---------------------------------------------------------------------------------------------- encoding

def hx(s):
    return s.encode().hex()


def enc_name(t):
    return t[0] + '.' + '.'.join(hx(x) for x in t[1:])


def dec_name(w):
    p = w.split('.')
    return tuple([p[0]] + [bytes.fromhex(x).decode() for x in p[1:]])


def enc_opt(x):
    return '-' if x is None else str(x)


def enc_pr(p):
    return '%d|%d|%s|%s|%s|%s|%s' % (p['id'], p['robot'], enc_name(p['src']), enc_name(p['dst']), p['state'][0],
                                     enc_opt(p['parent']), enc_opt(p['title']))


def enc_world(aw):
    return '%s %s' % (';'.join(enc_pr(p) for p in aw['prs']) or '-',
                      ','.join(enc_name(b) for b in aw['branches']) or '-')


STATES = {'O': 'OPEN', 'D': 'DECLINED', 'M': 'MERGED'}


def dec_world(ans):
    """'OK <prs> <branches>' -> (list of pr tuples, set of W names)."""
    _, prs, brs = ans.split(' ')
    out = []
    for w in ([] if prs == '-' else prs.split(';')):
        i, r, s, d, st, par, tit = w.split('|')
        out.append((int(i), r == '1', dec_name(s), dec_name(d), STATES[st], None if par == '-' else int(par),
                    None if tit == '-' else int(tit)))
    names = [dec_name(b) for b in ([] if brs == '-' else brs.split(','))]
    return out, sorted(n for n in names if n[0] == 'W'), names


def canon_world(aw):
    return ([(p['id'], p['robot'], p['src'], p['dst'], p['state'], p['parent'], p['title']) for p in aw['prs']],
            sorted(set(b for b in aw['branches'] if b[0] == 'W')))


def enc_cascade(vtable):
    return ';'.join('%s=%s' % (hx(d), '+'.join(hx(v) for v in ts)) for d, ts in sorted(vtable.items())) or '-'


# ---------------------------------------------------------------------------------------------- observation

OBS = {'gate': [], 'closes': [], 'snapshots': [], 'evaluated': []}
_INSTALLED = [False]


def install_observers():
    """Wrap four functions of the real code (in this process only) to READ what the job computed."""
    if _INSTALLED[0]:
        return
    import bert_e.workflow.gitwaterflow as gwf
    from bert_e.workflow.gitwaterflow import queueing
    from bert_e.git_host import mock
    orig_check = gwf.check_integration_branches

    def check_integration_branches(job):
        try:
            approvals = set(job.pull_request.get_approvals())
            if job.settings.approve:
                approvals.add(job.pull_request.author)
            OBS['gate'].append({'opt_prs': bool(job.settings.create_pull_requests),
                                'opt_branches': bool(job.settings.create_integration_branches),
                                'approved': job.pull_request.author in approvals, 'pr': job.pull_request.id})
        except Exception:
            OBS['gate'].append({'error': traceback.format_exc()[-300:]})
        return orig_check(job)
    gwf.check_integration_branches = check_integration_branches
    orig_handle = gwf._handle_pull_request

    def _handle_pull_request(job):
        OBS['evaluated'].append(int(job.pull_request.id))
        return orig_handle(job)
    gwf._handle_pull_request = _handle_pull_request
    orig_close = queueing.close_queued_pull_request

    def close_queued_pull_request(job, pr_id, cascade):
        OBS['closes'].append(int(pr_id))
        return orig_close(job, pr_id, cascade)
    queueing.close_queued_pull_request = close_queued_pull_request
    orig_get = mock.Repository.get_pull_requests

    def get_pull_requests(self, *a, **kw):
        # the original reads the state of every pull request (lazy MERGED derivation) right away: same reads here
        OBS['snapshots'].append({item.id: item.state for item in mock.PullRequest.items})
        return orig_get(self, *a, **kw)
    mock.Repository.get_pull_requests = get_pull_requests
    _INSTALLED[0] = True


def reset_obs():
    for k in OBS:
        OBS[k] = []


# ---------------------------------------------------------------------------------------------- one job

def classify(status, rec, closes):
    """Outcome class of the model from the job status (+ which pull requests a queue evaluation closed, and for a
    Conflict how many integration branches had been pushed)."""
    if closes or status == 'Merged':
        return 'Q:' + (','.join(str(i) for i in closes) or '-')
    if status == 'Conflict':
        pushed = set()
        for t in rec.get('trace', []):
            if t.get('op') == 'push':
                pushed.update(n for n in t['names'] if n.startswith('w/'))
        return 'CONF:%d' % len(pushed)
    return STAGE.get(status, 'B')


def check_job(world, ev, before, rec, after, model, out, jobinfo):
    """CORR (model prediction vs real post-state) and the monitors for one job."""
    from lib import mon_c19 as mon
    if ev.get('e') == 'job_api' and ev.get('kind') == 'eval_pr':
        # POST /api/pull-requests/<id>: its handler builds the pull-request job of that id - the same event, to the
        # model and to the statement, as a webhook about that pull request
        ev = {'e': 'job_pr', 'pr': int(ev.get('args', {}).get('pr_id', 0)), 'via_api': True}
    status = rec.get('status')
    obs = {k: list(v) for k, v in OBS.items()}
    reset_obs()
    pre, post = mon.abstract(before), mon.abstract(after)
    out['hist']['status:%s' % status] = out['hist'].get('status:%s' % status, 0) + 1
    out['hist']['event:%s' % ev['e']] = out['hist'].get('event:%s' % ev['e'], 0) + 1
    if ev['e'] == 'drained':
        return
    if status not in known_statuses():
        # not a message / control-flow class of bert_e.exceptions: the job crashed
        out['mismatch'].append({'function': 'job crashed (status is not a Bert-E message class)',
                                'input': {'event': ev, 'status': status}, 'impl': status, 'model': 'a Bert-E status'})
    vtable = mon.version_table(before['refs'])
    cfg = world.cfg
    # ---------------- the model's event
    gate = next((g for g in reversed(obs['gate']) if 'error' not in g), None) or \
        {'opt_prs': False, 'opt_branches': False, 'approved': False}
    oc = classify(status, rec, obs['closes'])
    ctx_s = '%s %d%d%d %s' % (enc_cascade(vtable), gate['opt_prs'], gate['opt_branches'], gate['approved'], oc)
    names_at = []
    if ev['e'] == 'job_pr':
        mev = 'PR %d %s' % (ev['pr'], ctx_s)
        target = next((p for p in pre['prs'] if p['id'] == ev['pr']), None)
        kind = 'pr:child' if target and target['robot'] else 'pr:parent'
    elif ev['e'] == 'job_commit':
        sha = ev.get('sha') or before['refs'].get(ev.get('ref'))
        if sha is None:
            return
        names_at = sorted(n for n, s in before['refs'].items() if s == sha)
        mev = 'COMMIT %s %s' % (','.join(enc_name(mon.parse_name(n)) for n in names_at) or '-', ctx_s)
        kinds = set(mon.parse_name(n)[0] for n in names_at)
        kind = 'commit:' + ('q' if 'Q' in kinds or any(n.startswith('q/') for n in names_at) else
                            'w' if 'W' in kinds else 'src' if 'S' in kinds else 'other')
    elif ev['e'] == 'job_api':
        mev = 'QUEUE %s' % ctx_s
        kind = 'api:' + ev.get('kind', '')
    else:
        return
    out['hist']['kind:' + kind] = out['hist'].get('kind:' + kind, 0) + 1
    out['hist']['outcome:' + oc.split(':')[0]] = out['hist'].get('outcome:' + oc.split(':')[0], 0) + 1
    pre_state = {p['id']: p['state'] for p in pre['prs']}
    snap = obs['snapshots'][-1] if obs['snapshots'] else {}
    flips_pre = sorted(i for i, st in snap.items() if st == 'MERGED' and pre_state.get(i) == 'OPEN')
    merged_after = sorted(p['id'] for p in post['prs'] if p['state'] == 'MERGED')
    if flips_pre:
        out['hist']['host_merged_at_lookup'] = out['hist'].get('host_merged_at_lookup', 0) + 1
    cfgbits = '%d%d%d' % (bool(cfg['always_prs']), bool(cfg['always_branches']), bool(cfg['use_queue']))
    req = 'run %s %s MERGED %s // %s // MERGED %s' % (
        cfgbits, enc_world(pre), ','.join(map(str, flips_pre)) or '-', mev,
        ','.join(map(str, merged_after)) or '-')
    want = canon_world(post)
    inp = {'event': ev, 'status': status, 'outcome_class': oc, 'kind': kind, 'gate_inputs': gate,
           'always_prs': cfg['always_prs'], 'always_branches': cfg['always_branches']}
    if model is not None:
        ans, chk, tgt = model.batch([req, 'check ' + enc_world(post), 'target %s %s %s' % (cfgbits, enc_world(pre), mev)])
        seen = str(obs['evaluated'][-1]) if obs['evaluated'] else '-'
        if tgt != seen:
            out['mismatch'].append({'function': 'evaluated_pr (which pull request the event is handled as)',
                                    'input': inp, 'impl': seen, 'model': tgt})
        if ans.startswith('OK '):
            mprs, mws, _ = dec_world(ans)
            if (mprs, mws) != want:
                out['mismatch'].append({'function': 'step', 'input': inp,
                                        'impl': {'prs': want[0], 'w': want[1]}, 'model': {'prs': mprs, 'w': mws}})
        elif ans.startswith('ERR ') and ans[4:] in ERR_STATUS:
            if status not in ERR_STATUS[ans[4:]] or canon_world(pre) != want:
                out['mismatch'].append({'function': 'step(error class)', 'input': inp, 'impl': status, 'model': ans})
        else:
            out['mismatch'].append({'function': 'step', 'input': inp, 'impl': {'prs': want[0], 'w': want[1]},
                                    'model': ans})
    else:
        chk = None
    # ---------------- monitors (the statement on the real dumps)
    same_source = mon.shared_sources(pre) or mon.shared_sources(post)
    viol = []
    v11 = mon.one_to_one(post)
    if chk is not None and len(chk) == 4:
        if (chk[2] == '1') != (not v11) or (chk[1] == '1') != mon.distinct_sources(post):
            out['mismatch'].append({'function': 'one_to_one_b / distinct_src_b (extracted spec) vs python monitor',
                                    'input': inp, 'impl': {'one_to_one': not v11, 'distinct': mon.distinct_sources(post)},
                                    'model': chk})
    if not mon.one_to_one(pre):     # reported when it appears, not again after every later job
        viol += v11
    # decline clause
    if status == 'PullRequestDeclined':
        pid = ev.get('pr') if ev['e'] == 'job_pr' else None
        p = next((q for q in pre['prs'] if q['id'] == pid), None)
        if p is not None and p['robot']:
            p = next((q for q in pre['prs'] if q['id'] == p['parent']), None)
        if p is not None and not p['robot'] and p['state'] == 'DECLINED':
            viol += mon.decline_clause(pre, post, p, vtable)
            out['hist']['clause:decline'] = out['hist'].get('clause:decline', 0) + 1
    # a declined pull request stays clean, however often its events are delivered
    dp = mon.evaluated_declined_pr(pre, ev)
    if dp is not None:
        waits = any(c['pr'] == dp['id'] and c['cls'].startswith('user:') and 'wait' in c['cls']
                    for c in before['comments'])
        viol += mon.declined_stays_clean(pre, post, dp, status, waits)
        out['hist']['clause:declined_evaluated'] = out['hist'].get('clause:declined_evaluated', 0) + 1
    # merge clause
    merged_now = [p for p in pre['prs'] if not p['robot'] and p['state'] == 'OPEN' and
                  any(q['id'] == p['id'] and q['state'] == 'MERGED' for q in post['prs'])]
    for p in merged_now:
        if status in ('SuccessMessage', 'Merged') or p['id'] in obs['closes']:
            viol += mon.merge_clause(post, p, vtable)
            out['hist']['clause:merge'] = out['hist'].get('clause:merge', 0) + 1
    for v in viol:
        v['same_source'] = same_source
        out['violations'].append({'event': ev, 'detail': v, 'job_index': jobinfo['job_index']})
    # non-trivial cases: the evaluation reached a decision this property is about
    if oc != 'B':
        out['nontrivial'].append('%s|%s|%s|%d%d|%d%d%d|%d' % (
            kind, oc.split(':')[0], status, cfg['always_prs'], cfg['always_branches'], gate['opt_prs'],
            gate['opt_branches'], gate['approved'], len(want[1])))
    # what the twin run needs
    jobinfo['parent'] = mon.parent_of_event(pre, ev, before['refs'])
    jobinfo['projection'] = mon.projection(after)
    jobinfo['status'] = status
    jobinfo['kind'] = kind


# ---------------------------------------------------------------------------------------------- histories

def _mk_on_job(model, out, events, jobs):
    def on_job(world, ev, before, rec, after):
        out['jobs'] += 1
        info = {'job_index': out['jobs'], 'event_index': len(events) - 1, 'ev': ev}
        jobs.append(info)
        try:
            check_job(world, ev, before, rec, after, model, out, info)
        except Exception:
            out['mismatch'].append({'function': 'c19-check-crash', 'input': {'event': ev},
                                    'impl': traceback.format_exc()[-1500:], 'model': None})
    return on_job


def family_c19(seed, model, out, shape=None):
    """Scripted family of this property: up to 3 pull requests on overlapping cascades; pull request events,
    events on child pull requests and commit events on every source / w/ / q/ tip, shuffled with repetition; the
    two settings on and off, the two options; then the decline path or the merge path for every pull request.
    shape 'A' / 'B' (always_create_integration_pull_requests on, two pull requests): the integration branches of a
    pull request disappear while its integration pull requests are still OPEN - deleted by hand (A), or removed by
    Bert-E after a PARTIAL queue merge (the author pushed one more commit after the pull request was queued) (B) -
    and the next events re-create the branches: the open integration pull requests must be reused."""
    from lib import sysworld, histories
    from lib import mon_c19 as mon
    rng = random.Random(seed * 104729 + 7)
    layouts = [l for l in histories.LAYOUTS if len(histories.dest_names(l)[0]) >= (3 if shape else 2)]
    layout = rng.choice(layouts)
    mode = rng.choice(['queue', 'queue', 'noqueue', 'skip'])
    if shape == 'B':
        mode = 'queue'
    cfg = {'layout': layout, 'use_queue': mode != 'noqueue', 'skip_queue': mode == 'skip',
           'no_octopus': rng.random() < 0.3, 'peers': 0, 'leaders': 0, 'need_author': False,
           'build_key': 'pre-merge', 'always_prs': rng.random() < 0.6, 'always_branches': rng.random() < 0.6,
           'cmd_line_options': []}
    if shape:
        cfg['always_prs'] = True
    world = sysworld.World(cfg)
    events, jobs = [], []
    on_job = _mk_on_job(model, out, events, jobs)

    def do(ev):
        events.append(ev)
        return histories.run_history(world, [ev], on_job=on_job)[0]
    try:
        dests, hot = histories.dest_names(layout)
        prs = []
        for i in range(2 if shape else rng.choice([1, 2, 2, 3, 3])):
            dst = rng.choice(dests[:-1]) if (shape or rng.random() < 0.8) else rng.choice(dests + hot)
            if shape and i == 0:
                dst = rng.choice(dests[:-2])          # at least two targets beyond the first
            src = '%s/TEST-%d%s' % (rng.choice(['bugfix', 'feature', 'improvement']), i + 1,
                                    rng.choice(['', '-fix', '-w-5.1', '/sub']))
            if prs and rng.random() < 0.3:
                # names in a prefix relation (TEST-1 / TEST-12, foo / foo-bis)
                src = prs[0]['src'] + rng.choice(['2', '-bis', '0'])
            ev = {'e': 'create_pr', 'src': src, 'dst': dst, 'label': 'c%d' % (i + 1)}
            if rng.random() < 0.4:
                # titles people write: with numbers in them (a step, a version, another pull request's number)
                ev['title'] = rng.choice(['Fix step %d of the upgrade procedure' % rng.randint(1, 3), 'Bump to 10.0.%d'
                                          % rng.randint(1, 4), 'Follow-up of #%d' % rng.randint(1, 3), '2nd try'])
            roll = 1.0 if shape else rng.random()
            if roll < 0.12:
                ev['file'], ev['content'] = 'shared_a', 'content of %s\n' % src
            elif roll < 0.27 and dst in dests and dests.index(dst) < len(dests) - 1:
                # a file that already exists, with another content, on a later target only: the update of that
                # target's integration branch conflicts, the earlier integration branches are pushed
                later = [d for d in dests[dests.index(dst) + 1:] if d.startswith('development/')]
                if later:
                    ev['file'], ev['content'] = 'dev_' + rng.choice(later).split('/', 1)[1], 'conflict %s\n' % src
            r = do(ev)
            prs.append({'id': r.get('res', {}).get('pr'), 'src': src, 'dst': dst})
        prs = [p for p in prs if p['id']]

        def pool(only=None):
            """Events available now: on every pull request (parents and children, whatever their state) and on
            every source / w/ / q/ tip; `only` restricts to the events about one pull request."""
            d = world.dump()
            par, kid, tip = [], [], []
            for p in d['prs']:
                if p['author'] == sysworld.ROBOT:
                    if only is None or mon.first_number(p['description']) == only['id']:
                        kid.append({'e': 'job_pr', 'pr': p['id']})
                elif only is None or p['id'] == only['id']:
                    par.append({'e': 'job_pr', 'pr': p['id']})
            for n in sorted(d['refs']):
                t = mon.parse_name(n)
                if t[0] == 'S' and (only is None or n == only['src']):
                    tip.append({'e': 'job_commit', 'ref': n})
                elif t[0] == 'W' and (only is None or t[2] == only['src']):
                    tip.append({'e': 'job_commit', 'ref': n})
                elif n.startswith('q/') and only is None:
                    tip.append({'e': 'job_commit', 'ref': n})
            return par, kid, tip

        def some_event(only=None):
            par, kid, tip = pool(only)
            roll = rng.random()
            for cut, l in ((0.3, par), (0.62, kid), (1.0, tip)):
                if roll < cut and l:
                    return do(rng.choice(l))
            return do(rng.choice(par + kid + tip))

        def open_gate(p, force=False):
            """The comment options / the author's approval that let check_integration_branches pass."""
            if not force and rng.random() < 0.45:
                return
            how = rng.choice(['create_pull_requests', 'create_integration_branches', 'approve', 'both'])
            if how == 'approve':
                do({'e': 'approve', 'user': sysworld.AUTHOR, 'pr': p['id']})
            elif how == 'both':
                do({'e': 'comment', 'user': sysworld.AUTHOR, 'pr': p['id'],
                    'text': '@bert-e create_pull_requests create_integration_branches'})
            else:
                do({'e': 'comment', 'user': rng.choice([sysworld.AUTHOR, sysworld.PEER]), 'pr': p['id'],
                    'text': '@bert-e ' + how})

        def w_tips(p):
            return sorted(n for n in world.refs() if mon.parse_name(n)[0] == 'W' and mon.parse_name(n)[2] == p['src'])

        if shape and len(prs) == 2:
            p = prs[0]
            for q in prs:
                do({'e': 'job_pr', 'pr': q['id']})            # integration branches and pull requests exist
            if shape == 'A':
                some_event()
                ws = w_tips(p)
                for n in (ws if rng.random() < 0.5 else [rng.choice(ws)] if ws else []):
                    do({'e': 'delete_branch_user', 'branch': n})   # by hand; the children stay OPEN
            else:
                for n in [p['src']] + w_tips(p):
                    do({'e': 'build', 'ref': n, 'state': 'SUCCESSFUL'})
                some_event(p)                                   # -> Queued
                do({'e': 'push', 'branch': p['src'], 'label': 'late%d' % seed})
                q = sorted(n for n in world.refs() if n.startswith('q/'))
                for n in q:
                    do({'e': 'build', 'ref': n, 'state': 'SUCCESSFUL'})
                if q:
                    do({'e': 'job_commit', 'ref': rng.choice(q)})  # partial merge: w/ removed, children OPEN
            for _ in range(rng.randint(2, 3)):
                some_event(p)                                   # re-creates the branches, reuses the children
        for _ in range(rng.randint(2, 4)):
            some_event()
        for p in prs:
            open_gate(p)
        if rng.random() < 0.12:
            # malformed input (compared with the model only): somebody opens a pull request from a w/ branch
            ws = sorted(n for n in world.refs() if mon.parse_name(n)[0] == 'W')
            if ws:
                wn = rng.choice(ws)
                others = [d for d in dests if mon.parse_name(d)[1] != mon.parse_name(wn)[1]]
                if others:
                    do({'e': 'create_pr', 'src': wn, 'dst': rng.choice(others), 'reuse': True})
        for _ in range(rng.randint(2, 4)):
            some_event()
        if prs and rng.random() < 0.15:
            p = rng.choice(prs)
            do({'e': 'comment', 'user': sysworld.AUTHOR, 'pr': p['id'],
                'text': '@bert-e ' + rng.choice(['reset', 'force_reset'])})
            some_event(p)
            some_event(p)
        order = list(prs)
        rng.shuffle(order)
        for p in order:
            path = rng.choice(['merge', 'merge', 'decline', 'decline', 'leave'])
            if path == 'leave':
                some_event(p)
                continue
            if path == 'decline':
                do({'e': 'decline', 'pr': p['id']})
                par, kid, _tip = pool(p)
                do(rng.choice(par + kid) if rng.random() < 0.6 else rng.choice(par))
                # the same events again, two or three times: on the declined parent and on its (now declined)
                # children - re-delivered webhooks, and the webhooks of the children that were just declined
                again = [rng.choice(par)] + [rng.choice(par + kid) for _ in range(rng.choice([1, 2]))]
                rng.shuffle(again)
                for e2 in again:
                    do(dict(e2))
                if rng.random() < 0.4:
                    some_event(p)
                continue
            if not (cfg['always_prs'] or cfg['always_branches']):
                open_gate(p, force=True)
            some_event(p)
            refs = world.refs()
            for n in sorted(refs):
                t = mon.parse_name(n)
                if n == p['src'] or (t[0] == 'W' and t[2] == p['src']):
                    do({'e': 'build', 'ref': n, 'state': 'SUCCESSFUL'})
            some_event(p)
            q = sorted(n for n in world.refs() if n.startswith('q/'))
            if q:
                for n in q:
                    do({'e': 'build', 'ref': n, 'state': 'SUCCESSFUL' if rng.random() < 0.9 else 'FAILED'})
                do({'e': 'job_commit', 'ref': rng.choice(q)})
            if rng.random() < 0.5:
                some_event(p)
        for _ in range(rng.randint(1, 2)):
            some_event()
    finally:
        world.close()
    return {'cfg': cfg, 'events': events, 'seed': seed, 'family': 'c19' + (shape or '')}, jobs


def run_twins(history, jobs, rng, out, how_many):
    """Redirect clause on the real system: replay the history up to a child / commit event and deliver the event on
    the parent pull request instead; the resulting worlds must be identical."""
    from lib import sysworld, histories
    from lib import mon_c19 as mon
    cands = [j for j in jobs if j.get('parent') is not None and j.get('projection') is not None]
    rng.shuffle(cands)
    for j in cands[:how_many]:
        twin = history['events'][:j['event_index']] + [{'e': 'job_pr', 'pr': j['parent']}]
        last = {}

        def on_job(world, ev, before, rec, after, last=last):
            last['proj'] = mon.projection(after)
            last['status'] = rec.get('status')
        world = sysworld.World(history['cfg'])
        try:
            histories.run_history(world, twin, on_job=on_job)
        finally:
            world.close()
        reset_obs()
        out['jobs'] += sum(1 for e in twin if e['e'].startswith('job_'))
        out['twins'] += 1
        out['hist']['twin:' + j['kind']] = out['hist'].get('twin:' + j['kind'], 0) + 1
        diff = [k for k in ('refs', 'prs', 'comments') if last.get('proj', {}).get(k) != j['projection'][k]]
        if last.get('status') != j['status']:
            diff.append('status')
        if diff:
            detail = {'what': 'redirect: the event is not handled as the event on the parent pull request',
                      'parent': j['parent'], 'differs_in': diff, 'status': j['status'],
                      'status_of_parent_event': last.get('status'), 'same_source': False}
            for k in diff:
                if k != 'status':
                    a, b = j['projection'][k], last.get('proj', {}).get(k)
                    detail['with_' + k] = json.loads(json.dumps(a, default=str))[:40] if isinstance(a, list) else a
                    detail['parent_' + k] = json.loads(json.dumps(b, default=str))[:40] if isinstance(b, list) else b
            out['violations'].append({'event': j['ev'], 'detail': detail, 'job_index': j['job_index']})


def _worker(args):
    seed, family, exe, quick, replay_history = args
    os.environ['PYTHONHASHSEED'] = '0'
    from lib import histories
    install_observers()
    reset_obs()
    model = core.Model(exe) if exe else None
    out = {'seed': seed, 'family': family, 'jobs': 0, 'violations': [], 'mismatch': [], 'hist': {},
           'nontrivial': [], 'history': None, 'error': None, 'wall': 0.0, 'twins': 0}
    t0 = time.time()
    rng = random.Random(seed * 31 + 5)
    try:
        if replay_history is not None:
            events, jobs = [], []
            hook = _mk_on_job(model, out, events, jobs)
            from lib import sysworld
            world = sysworld.World(replay_history['cfg'])
            try:
                for ev in replay_history['events']:
                    events.append(ev)
                    histories.run_history(world, [ev], on_job=hook)
            finally:
                world.close()
            h = replay_history
        elif family == 'c19':
            h, jobs = family_c19(seed, model, out)
        elif family == 'c19r':
            h, jobs = family_c19(seed, model, out, shape='A' if (seed // 6) % 2 == 0 else 'B')
            out['hist']['shape:' + h['family']] = 1
        else:
            jobs = []

            def hook(world, ev, before, rec, after):
                out['jobs'] += 1
                info = {'job_index': out['jobs'], 'event_index': None, 'ev': ev}
                jobs.append(info)
                try:
                    check_job(world, ev, before, rec, after, model, out, info)
                except Exception:
                    out['mismatch'].append({'function': 'c19-check-crash', 'input': {'event': ev},
                                            'impl': traceback.format_exc()[-1500:], 'model': None})
            over = {'always_prs': rng.random() < 0.6, 'always_branches': rng.random() < 0.6}
            if family == 'lifecycle':
                h, _ = histories.lifecycle_and_run(seed, on_job=hook, cfg_override=over)
            else:
                h, _ = histories.generate_and_run(seed, length=14 if quick else 18, on_job=hook, cfg_override=over,
                                                  admin_jobs=False)
            # event index of the k-th job = position of the k-th job_* event of the history
            pos = [i for i, e in enumerate(h['events']) if e['e'].startswith('job_')]
            real_jobs = [j for j in jobs if j['ev']['e'] != 'drained']
            if len(pos) == len(real_jobs):
                for j, i in zip(real_jobs, pos):
                    j['event_index'] = i
            jobs = [j for j in real_jobs if j['event_index'] is not None]
        out['history'] = h
        if not out['mismatch'] and replay_history is None:
            run_twins(h, jobs, rng, out, 1)
        elif replay_history is not None and replay_history.get('twins', True):
            run_twins(h, jobs, rng, out, 3)
    except Exception:
        out['error'] = traceback.format_exc()[-2500:]
    out['wall'] = time.time() - t0
    if not out['violations'] and not out['mismatch'] and not out['error'] and out['history']:
        out['history'] = {'cfg': out['history']['cfg'], 'n_events': len(out['history']['events'])}
    return out


def corpus():
    d = os.path.join(core.VERIF, 'corpus', 'C19')
    res = []
    for f in sorted(os.listdir(d)) if os.path.isdir(d) else []:
        if f.endswith('.json'):
            res.append((f, json.load(open(os.path.join(d, f)))))
    return res


def _collect(ctx, results):
    n_hist = 0
    # violations outside the known same-source situation are reported first (check.py replays the first one)
    results = sorted(results, key=lambda r: (any(v['detail'].get('same_source') for v in r['violations']),
                                             str(r['family']).startswith('corpus:')))
    for r in results:
        n_hist += 1
        ctx.evaluations += r['jobs']
        ctx.count('family:' + str(r['family']))
        ctx.count('twin_runs', r['twins'])
        for k, v in r['hist'].items():
            ctx.count(k, v)
        for k in r['nontrivial']:
            ctx.seen_nontrivial(k)
        if r['error']:
            ctx.mismatch({'seed': r['seed'], 'family': r['family']}, r['error'], None, 'history-harness-crash')
        for m in r['mismatch']:
            ctx.mismatch({'seed': r['seed'], 'family': r['family'], 'history': r['history'], 'at': m['input']},
                         m['impl'], m['model'], m['function'])
        for v in r['violations']:
            d = v['detail']
            ctx.violation({'seed': r['seed'], 'family': r['family'], 'history': r['history'],
                           'job_index': v['job_index'], 'event': v['event']},
                          'the statement of C19 holds after the job', d, 'mon_c19: %s' % d.get('what'),
                          key=core.canon({'monitor': 'mon_c19', 'what': d.get('what'),
                                          'same_source': bool(d.get('same_source'))}))
        if r['history'] and len(ctx.samples) < 4:
            ctx.sample({'seed': r['seed'], 'family': r['family'], 'cfg': r['history'].get('cfg'), 'jobs': r['jobs'],
                        'events': r['history'].get('n_events', len(r['history'].get('events', []))),
                        'wall_s': round(r['wall'], 1)})
    ctx.count('histories', n_hist)
    ctx.traces_validated += sum(r['jobs'] for r in results)


def kernel_cross_check(ctx):
    """The extracted binary against Coq's own evaluator: Example c19_ex_run (Proofs/C19Proofs.v) computes, by
    vm_compute, that this run ends in a world with 5 pull requests and 5 branches."""
    def pr(i, robot, src, dst, par):
        return {'id': i, 'robot': robot, 'src': src, 'dst': dst, 'state': 'OPEN', 'parent': par, 'title': par}
    b1, f2 = 'bugfix/TEST-1', 'feature/TEST-2'
    w = {'prs': [pr(1, False, ('S', b1), ('D', '4.3'), None), pr(2, True, ('W', '5.1', b1), ('D', '5.1'), 1),
                 pr(3, True, ('W', '10.0', b1), ('D', '10.0'), 1), pr(4, False, ('S', f2), ('D', '5.1'), None)],
         'branches': [('W', '5.1', b1), ('W', '10.0', b1), ('S', b1), ('S', f2)]}
    casc = enc_cascade({'4.3': ['4.3', '5.1', '10.0'], '5.1': ['5.1', '10.0'], '10.0': ['10.0']})
    evs = ['PR 4 %s 000 CREATED', 'PR 2 %s 000 CREATED', 'PR 2 %s 000 CREATED',
           'COMMIT ' + enc_name(('W', '10.0', f2)) + ' %s 000 CREATED', 'PR 1 %s 000 CONF:1', 'PR 4 %s 000 CREATED',
           'PR 5 %s 000 CREATED']
    ans = ctx.model.batch(['run 110 %s %s' % (enc_world(w), ' // '.join(e % casc for e in evs))])[0]
    ok = ans.startswith('OK ')
    if ok:
        prs, _ws, names = dec_world(ans)
        ok = len(prs) == 5 and len(names) == 5
    if not ok:
        ctx.mismatch({'example': 'c19_ex_run'}, '5 pull requests, 5 branches (vm_compute)', ans,
                     'extracted model vs Coq evaluator')


def run(ctx):
    check_stage_table()
    exe = ctx.model.exe if ctx.model is not None else None
    if exe is None:
        ctx.notes.append('extracted model unavailable: correspondence not run (monitors only)')
    else:
        kernel_cross_check(ctx)
    n = 48 if ctx.quick else 800
    fams = ['c19', 'c19', 'c19r', 'lifecycle', 'c19', 'random']
    tasks = [(ctx.seed * 100000 + i, fams[i % len(fams)], exe, ctx.quick, None) for i in range(n)]
    for name, h in corpus():
        tasks.insert(0, (0, 'corpus:' + name, exe, ctx.quick, h))
    ctx.rule = ('%d system histories on the real Bert-E (2/3 of them the scripted C19 family, 1/6 of these with the '
                'integration branches deleted by hand / removed after a partial queue merge while the integration '
                'pull requests are open, then re-created: <=3 pull requests on '
                'overlapping cascades, pull request / child pull request / commit events on every source, w/ and q/ '
                'tip shuffled with repetition, always_create_integration_pull_requests / _branches on and off, the '
                'two options and the author approval, then decline or merge; the rest from the shared lifecycle / '
                'random generators) + the corpus; evaluation = one Bert-E job (twin prefixes included); non-trivial = '
                'distinct (event kind, outcome class, status, settings, effective options, number of w/ branches) '
                'among jobs that got to a decision about integration data' % n)
    mp = get_context('fork')
    with mp.Pool(16) as pool:
        results = pool.map(_worker, tasks, chunksize=1)
    _collect(ctx, results)
    k = 16 if ctx.quick else 150
    ctx.rule += pipeline.TIE_RULE % k
    pipeline.tie(ctx, k)


def replay(ctx, data):
    h = data['input']['history']
    if 'events' not in h:
        raise ValueError('replay file carries no history')
    _collect(ctx, [_worker((0, 'replay', ctx.model.exe if ctx.model else None, True, h))])
