#!/venv/bin/python
"""Entry point of every registered check:  check.py <ID> --quick|--thorough [--replay FILE]
                                           check.py --setup            (MANIFEST.setup_cmd)
Pipeline per property: GEN (facts from /repo) -> PROVE (coq, full .vo build of the cone, Print
Assumptions) -> CORR (implementation vs extracted model) + spec monitor (implementation vs extracted
specification) -> SEARCH/REPORT.  See DESIGN.md section 2.
"""
import importlib
import json
import os
import sys
import time
import traceback

HERE = os.path.dirname(os.path.abspath(__file__))
sys.path.insert(0, HERE)
from lib import core  # noqa: E402

sys.path.insert(0, core.REPO)
os.environ.setdefault('PYTHONHASHSEED', '0')

ALL = ['C%02d' % i for i in range(1, 21)]


def load_plugin(pid):
    return importlib.import_module('props.%s' % pid.lower())


def have_plugin(pid):
    return os.path.exists(os.path.join(HERE, 'props', pid.lower() + '.py'))


def gen_and_build(plugin, ctx, clean=False):
    """GEN + PROVE + extraction build.  Returns nothing; fills ctx.prove_*, ctx.model."""
    pid = plugin.ID
    log = []
    ctx.forbidden = []
    with core.Lock():
        # GEN -------------------------------------------------------------------------------
        gen_ok = True
        try:
            facts = plugin.gen_facts(ctx) if hasattr(plugin, 'gen_facts') else {}
        except Exception:
            gen_ok = False
            facts = {}
            log.append('GEN failed (fail-closed translator):\n' + traceback.format_exc())
        for rel, text in facts.items():
            if core.write_if_changed(os.path.join(core.COQ, rel), text):
                ctx.facts_changed.append(rel)
        os.makedirs(os.path.join(core.BUILD, 'ocaml', pid), exist_ok=True)
        # PROVE -----------------------------------------------------------------------------
        cone = core.cone(plugin.COQ_CONE + ([plugin.EXTRACT] if getattr(plugin, 'EXTRACT', None) else [])
                         + [e for _n, e, _d in getattr(plugin, 'EXTRA_BINARIES', [])])
        ctx.cone = cone
        ctx.forbidden = core.forbidden_scan(cone)
        ctx.obligations, ctx.obligation_names = core.count_obligations(cone)
        t = time.time()
        ok, out = core.make_targets(plugin.COQ_CONE)
        log.append(out[-6000:])
        ctx.checker_cmd = 'cd %s && coq_makefile -f _CoqProject -o Makefile && make %s' % (
            core.COQ, ' '.join(f[:-2] + '.vo' for f in plugin.COQ_CONE))
        closed, axioms, pa_ok = 0, [], True
        if ok:
            for top in plugin.COQ_CONE:
                if not top.startswith('Properties/'):
                    continue
                ok2, out2 = core.coqc_print_assumptions(top)
                pa_ok = pa_ok and ok2
                c, a = core.parse_assumptions(out2)
                closed += c
                axioms += a
                if not ok2:
                    log.append(out2[-3000:])
        ctx.prove_s = time.time() - t
        ctx.axioms = sorted(set(axioms))
        ctx.closed = closed
        ctx.prove_ok = bool(gen_ok and ok and pa_ok and not ctx.forbidden)
        ctx.discharged = ctx.obligations if (ok and pa_ok) else 0
        # extraction + binary (independent of the Proofs files) -------------------------------
        exe = None
        if getattr(plugin, 'EXTRACT', None):
            ok3, out3 = core.make_targets([plugin.EXTRACT])
            if not ok3:
                log.append('extraction build failed:\n' + out3[-3000:])
            else:
                model_ml = os.path.join(core.BUILD, 'ocaml', pid, 'model.ml')
                if not os.path.exists(model_ml):
                    # .vo up to date but build/ was wiped: force re-extraction
                    try:
                        os.remove(os.path.join(core.COQ, plugin.EXTRACT[:-2] + '.vo'))
                    except FileNotFoundError:
                        pass
                    ok3, out3 = core.make_targets([plugin.EXTRACT])
                drivers = ['ocaml/common.ml'] + core.as_list(plugin.DRIVER)
                exe, err = core.build_binary(pid, drivers)
                if exe is None:
                    log.append('ocaml build failed:\n' + err[-3000:])
        ctx.model = core.Model(exe) if exe else None
        if getattr(plugin, 'EXTRACT', None) and exe is None:
            # fail closed: without the extracted binary there is no correspondence to speak of
            ctx.prove_ok = False
        # further extracted binaries (shared layers such as the handler skeletons of Model/Pipeline.v)
        ctx.extra_models = {}
        for name, extract, drivers in getattr(plugin, 'EXTRA_BINARIES', []):
            os.makedirs(os.path.join(core.BUILD, 'ocaml', name), exist_ok=True)
            ok4, out4 = core.make_targets([extract])
            if ok4 and not os.path.exists(os.path.join(core.BUILD, 'ocaml', name, 'model.ml')):
                try:
                    os.remove(os.path.join(core.COQ, extract[:-2] + '.vo'))
                except FileNotFoundError:
                    pass
                ok4, out4 = core.make_targets([extract])
            exe2, err2 = core.build_binary(name, ['ocaml/common.ml'] + drivers) if ok4 else (None, out4)
            if exe2 is None:
                log.append('extra binary %s failed:\n%s' % (name, (err2 or '')[-3000:]))
                ctx.prove_ok = False
            else:
                ctx.extra_models[name] = core.Model(exe2)
    ctx.prove_log = '\n'.join(log)


def thorough_rebuild(plugin, ctx):
    """From-clean build of the cone in a scratch copy + coqchk -o (thorough tier)."""
    import shutil
    scratch = os.path.join(core.BUILD, 'clean_%s_%d' % (plugin.ID, os.getpid()))
    shutil.rmtree(scratch, ignore_errors=True)
    os.makedirs(scratch)
    res = {'clean_build_ok': False}
    try:
        for rel in core.coq_files():
            dst = os.path.join(scratch, rel)
            os.makedirs(os.path.dirname(dst), exist_ok=True)
            shutil.copy(os.path.join(core.COQ, rel), dst)
        shutil.copy(os.path.join(core.COQ, '_CoqProject'), scratch)
        os.makedirs(os.path.join(scratch, '..', 'ocaml_scratch'), exist_ok=True)
        rc, out = core.sh('coq_makefile -f _CoqProject -o Makefile && timeout 3000 make -j16 %s' % ' '.join(
            f[:-2] + '.vo' for f in plugin.COQ_CONE), cwd=scratch)
        res['clean_build_ok'] = rc == 0
        res['clean_build_tail'] = out[-1500:] if rc else ''
        if rc == 0:
            mods = ' '.join('BertE.' + f[:-2].replace('/', '.') for f in plugin.COQ_CONE
                            if f.startswith('Properties/'))
            rc2, out2 = core.sh('timeout 3000 coqchk -silent -o -Q . BertE %s' % mods, cwd=scratch)
            res['coqchk_ok'] = rc2 == 0
            tail = out2[out2.find('CONTEXT SUMMARY'):] if 'CONTEXT SUMMARY' in out2 else out2[-3000:]
            res['coqchk_summary'] = tail[-4000:]
    finally:
        shutil.rmtree(scratch, ignore_errors=True)
        shutil.rmtree(os.path.join(core.BUILD, 'ocaml_scratch'), ignore_errors=True)
    return res


def trusted_base(plugin, ctx):
    tb = [
        'Coq 8.16.1 kernel (coqc, full .vo build through coq_makefile; vm_compute used, native_compute not used)',
        'Print Assumptions under the property theorems: %d closed under the global context; axioms: %s'
        % (ctx.closed, ', '.join(ctx.axioms) if ctx.axioms else 'none'),
        'extraction: Require Extraction + ExtrOcamlBasic only (bool, option, unit, list, prod, sumbool, '
        'sumor mapped to OCaml; andb/orb inlined); nat/N/Z/positive/ascii/string stay extracted inductives; '
        'hand-written OCaml driver ocaml/common.ml + %s; ocamlfind ocamlopt 4.13.1' % (', '.join(core.as_list(plugin.DRIVER)) or '-'),
        'translator harness/props/%s.py:gen_facts (fail-closed, emits literals read from live objects / AST of /repo)'
        % plugin.ID.lower(),
        'correspondence harness (Python): canonicalisers, stubs and monkey-patches listed in the plug-in docstring',
    ]
    tb += getattr(plugin, 'TRUSTED', [])
    return tb


def report(plugin, ctx, extra_cov=None):
    pid = plugin.ID
    kf = core.load_known_findings()
    known = {f['key']: f for f in kf.get('findings', []) if f.get('property') == pid}
    listed, unlisted = [], []
    for v in ctx.spec_fail:
        (listed if v['key'] in known else unlisted).append(v)
    lines = []
    seen = set()
    for v in listed:
        if v['key'] in seen:
            continue
        seen.add(v['key'])
        lines.append('KNOWN-FINDING: property=%s %s' % (pid, known[v['key']]['what']))
    status = 0
    violations = 0
    if unlisted:
        violations = len(unlisted)
        v = unlisted[0]
        path = core.replay_path(pid, '%s-%d' % (ctx.tier, ctx.seed))
        json.dump({'property': pid, 'seed': ctx.seed, 'tier': ctx.tier, 'kind': 'failing-input',
                   'input': v['input'], 'expected': v['expected'], 'observed': v['observed'],
                   'what': v['what'], 'key': v['key'],
                   'others': [u['input'] for u in unlisted[1:6]],
                   'prove_ok': ctx.prove_ok, 'corr_mismatches': ctx.corr_mismatch[:5],
                   'how_to_replay': '/venv/bin/python harness/check.py %s --replay %s' % (pid, path)},
                  open(path, 'w'), indent=1, default=str)
        lines.append('VIOLATION property=%s replay=%s' % (pid, path))
        status = 1
    elif not ctx.prove_ok or ctx.corr_mismatch:
        violations = 1
        path = core.replay_path(pid, '%s-%d-unproved' % (ctx.tier, ctx.seed))
        json.dump({'property': pid, 'seed': ctx.seed, 'tier': ctx.tier, 'kind': 'no-failing-input-found',
                   'theorems': ['coq/%s' % f for f in plugin.COQ_CONE],
                   'prove_ok': ctx.prove_ok, 'forbidden': ctx.forbidden,
                   'facts_changed': ctx.facts_changed,
                   'prove_log_tail': ctx.prove_log[-3000:],
                   'correspondence_broken': [m['function'] for m in ctx.corr_mismatch[:1]],
                   'first_diverging_inputs': ctx.corr_mismatch[:5],
                   'how_to_replay': '/venv/bin/python harness/check.py %s --%s' % (pid, ctx.tier)},
                  open(path, 'w'), indent=1, default=str)
        lines.append('VIOLATION property=%s replay=%s no-failing-input-found' % (pid, path))
        status = 1
    cov = {
        'obligations': ctx.obligations, 'discharged': ctx.discharged,
        'checker_cmd': ctx.checker_cmd, 'trusted_base': trusted_base(plugin, ctx),
        'evaluations': ctx.evaluations, 'distinct_nontrivial': len(ctx.nontrivial) + ctx.nontrivial_extra,
        'rule': ctx.rule, 'samples': ctx.samples or ['(none)'], 'exhaustive': bool(ctx.exhaustive),
        'traces_validated_against_impl': ctx.traces_validated,
        'prove_ok': ctx.prove_ok, 'prove_wall_s': round(getattr(ctx, 'prove_s', 0), 1),
        'cone_files': ctx.cone, 'facts_regenerated': ctx.facts_changed,
        'correspondence_mismatches': len(ctx.corr_mismatch),
        'spec_failures_on_impl': len(ctx.spec_fail), 'known_findings_hit': sorted(seen),
        'input_distribution': ctx.hist, 'notes': ctx.notes,
    }
    cov.update(ctx.extra)
    if extra_cov:
        cov.update(extra_cov)
    ev = {'property_id': pid, 'tier': ctx.tier, 'seed': ctx.seed, 'level': 'proof', 'coverage': cov,
          'assumptions': getattr(plugin, 'ASSUMPTIONS', []) + ctx.assumptions,
          'wall_s': round(time.time() - ctx.t0, 2), 'violations': violations}
    os.makedirs(core.EVID, exist_ok=True)
    json.dump(ev, open(os.path.join(core.EVID, pid + '.json'), 'w'), indent=1, default=str)
    for ln in lines:
        print(ln)
    print('%s %s: prove=%s obligations=%d corr_evals=%d mismatches=%d spec_failures=%d wall=%.1fs' % (
        pid, ctx.tier, ctx.prove_ok, ctx.obligations, ctx.evaluations, len(ctx.corr_mismatch),
        len(ctx.spec_fail), time.time() - ctx.t0))
    if not ctx.prove_ok:
        print(ctx.prove_log[-2500:])
    for m in ctx.corr_mismatch[:3]:
        print('  corr mismatch:', json.dumps(m, default=str)[:600])
    for v in ctx.spec_fail[:3]:
        print('  spec failure :', json.dumps(v, default=str)[:600])
    return status


def setup():
    """Build the whole development and every extracted binary from the files on disk."""
    t0 = time.time()
    rc_all = 0
    try:
        claimed = {c['property_id'] for c in json.load(open(os.path.join(core.VERIF, 'MANIFEST.json')))['checks']}
    except Exception:
        claimed = set(ALL)
    plugins = [load_plugin(p) for p in ALL if have_plugin(p) and p in claimed]
    with core.Lock():
        for pl in plugins:
            ctx = core.Ctx(pl.ID, 'quick', 0)
            try:
                facts = pl.gen_facts(ctx) if hasattr(pl, 'gen_facts') else {}
            except Exception:
                traceback.print_exc()
                facts = {}
            for rel, text in facts.items():
                core.write_if_changed(os.path.join(core.COQ, rel), text)
            os.makedirs(os.path.join(core.BUILD, 'ocaml', pl.ID), exist_ok=True)
        core.ensure_makefile()
        # one make per property cone: an unfinished file of one property cannot break the others
        for pl in plugins:
            targets = list(pl.COQ_CONE) + ([pl.EXTRACT] if getattr(pl, 'EXTRACT', None) else [])
            ok, out = core.make_targets(targets, timeout=3000)
            print('%s coq build: %s' % (pl.ID, 'ok' if ok else 'FAILED'))
            if not ok:
                print(out[-1500:])
                rc_all |= 1
                continue
            if getattr(pl, 'EXTRACT', None):
                exe, err = core.build_binary(pl.ID, ['ocaml/common.ml'] + core.as_list(pl.DRIVER))
                if exe is None:
                    print('binary for %s failed: %s' % (pl.ID, err[-1500:]))
                    rc_all |= 1
            for name, extract, drivers in getattr(pl, 'EXTRA_BINARIES', []):
                os.makedirs(os.path.join(core.BUILD, 'ocaml', name), exist_ok=True)
                ok, out = core.make_targets([extract], timeout=3000)
                exe, err = core.build_binary(name, ['ocaml/common.ml'] + drivers) if ok else (None, out)
                if exe is None:
                    print('extra binary %s for %s failed: %s' % (name, pl.ID, (err or '')[-1500:]))
                    rc_all |= 1
    print('setup done in %.1fs rc=%d' % (time.time() - t0, rc_all))
    return rc_all


def main(argv):
    if '--setup' in argv:
        return setup()
    pid = argv[0].upper()
    tier = 'thorough' if '--thorough' in argv else 'quick'
    if os.environ.get('VERIF_TIER') in ('quick', 'thorough') and '--quick' not in argv and '--thorough' not in argv:
        tier = os.environ['VERIF_TIER']
    seed = int(os.environ.get('VERIF_SEED', '0') or 0)
    plugin = load_plugin(pid)
    ctx = core.Ctx(pid, tier, seed)
    ctx.replay = None
    if '--replay' in argv:
        ctx.replay = json.load(open(argv[argv.index('--replay') + 1]))
    # two runs of one property share its generated facts, evidence and replay files: one at a time
    with core.Lock('prop_' + pid):
        gen_and_build(plugin, ctx)
        extra = {}
        try:
            if ctx.replay is not None and hasattr(plugin, 'replay'):
                plugin.replay(ctx, ctx.replay)
            else:
                plugin.run(ctx)
            if getattr(ctx, 'xpairs', None):
                # answers of the extracted binary re-computed by the kernel's evaluator on the Coq definitions
                from lib import coqeval
                coqeval.crosscheck(ctx, ctx.xpairs)
        except Exception:
            ctx.prove_log += '\nCORR stage crashed:\n' + traceback.format_exc()
            ctx.mismatch('harness-crash', traceback.format_exc()[-1500:], None, 'harness')
        if tier == 'thorough' and ctx.replay is None:
            extra = thorough_rebuild(plugin, ctx)
            if not extra.get('clean_build_ok') or extra.get('coqchk_ok') is False:
                ctx.prove_ok = False
                ctx.prove_log += '\nthorough clean build / coqchk failed: ' + json.dumps(extra)[-2000:]
        return report(plugin, ctx, extra)


if __name__ == '__main__':
    sys.exit(main(sys.argv[1:]))
