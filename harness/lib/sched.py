"""Controlled thread scheduler: real threads, released one at a time according to a schedule.

A *controlled thread* runs real code; it stops
  * at every 'line' event of the code objects given in `line_codes` (sys.settrace, per thread),
  * wherever the harness calls `Sched.stop(kind, ...)` explicitly (wrappers around Queue.put / Queue.get,
    the point before an event is delivered).
At a stop the thread hands control back to the controller and sleeps on its own semaphore.  The
controller (the thread that built the Sched) releases exactly one thread at a time with
`release(tid)` and gets back the list of events the thread noted (`Sched.note`) before it reached
its next stop or finished.  So at any moment at most one controlled thread runs: every context
switch is decided by the schedule.

A stop may carry an `enabled` callable (e.g. "the queue is not empty" for a blocking get); the
controller never releases a thread whose stop is disabled - that is how a thread blocked in
Queue.get is represented without ever blocking for real.

Robustness: every wait has a timeout; a timeout raises `Deadlock` in the controller (the case fails
loudly), threads are daemons, `shutdown()` lets every thread run free to completion and joins them.
"""
import sys
import threading
import time


class Deadlock(Exception):
    pass


class Shutdown(BaseException):
    """Raised inside a controlled thread that is parked at a disabled stop when the run is over."""


class _Ctl:
    __slots__ = ('tid', 'sem', 'thread', 'state', 'kind', 'enabled', 'where', 'error')

    def __init__(self, tid):
        self.tid = tid
        self.sem = threading.Semaphore(0)
        self.thread = None
        self.state = 'new'        # new | stopped | running | done
        self.kind = None          # kind of the current stop
        self.enabled = None       # callable or None
        self.where = None         # (function name, line) of a line stop
        self.error = None         # exception that ended the thread, if any


class Sched:
    def __init__(self, line_codes=(), return_codes=(), timeout=5.0):
        self.line_codes = frozenset(line_codes)
        self.return_codes = frozenset(return_codes)   # code objects whose 'return' is noted as an event
        self.timeout = timeout
        self.back = threading.Semaphore(0)
        self.ctl = {}
        self.local = threading.local()
        self.events = []
        self.free_run = False
        self.stops = 0

    # ------------------------------------------------------------------ controlled-thread side
    def _global_trace(self, frame, event, arg):
        if frame.f_code in self.line_codes:
            return self._local_trace
        return None

    def _local_trace(self, frame, event, arg):
        if event == 'line':
            if not self.free_run:
                c = self.local.ctl
                c.where = (frame.f_code.co_name, frame.f_lineno)
                self._park(c, 'line', None)
        elif event == 'return' and frame.f_code in self.return_codes:
            self.events.append(('return', frame.f_code.co_name, id(frame)))
        return self._local_trace

    def _park(self, c, kind, enabled):
        c.kind, c.enabled, c.state = kind, enabled, 'stopped'
        self.stops += 1
        self.back.release()
        if not c.sem.acquire(timeout=self.timeout * 4):
            raise Shutdown()          # the controller is gone: end this thread
        c.state = 'running'

    def stop(self, kind, enabled=None):
        """Explicit stop, called by harness code running in a controlled thread."""
        if self.free_run:
            if enabled is not None and not enabled():
                raise Shutdown()
            return
        c = self.local.ctl
        c.where = None
        self._park(c, kind, enabled)
        if self.free_run and enabled is not None and not enabled():
            raise Shutdown()

    def note(self, *ev):
        self.events.append(ev)

    def _body(self, c, fn):
        self.local.ctl = c
        try:
            c.sem.acquire()                       # wait for the first release
            c.state = 'running'
            sys.settrace(self._global_trace)
            try:
                fn()
            finally:
                sys.settrace(None)
        except Shutdown:
            pass
        except BaseException as e:                # noqa
            c.error = e
        finally:
            c.state = 'done'
            self.back.release()

    # ------------------------------------------------------------------ controller side
    def spawn(self, tid, fn):
        c = _Ctl(tid)
        self.ctl[tid] = c
        c.thread = threading.Thread(target=self._body, args=(c, fn), daemon=True)
        c.kind, c.state = 'begin', 'stopped'
        c.thread.start()

    def is_done(self, tid):
        return self.ctl[tid].state == 'done'

    def is_enabled(self, tid):
        c = self.ctl.get(tid)
        if c is None or c.state != 'stopped':
            return False
        return c.enabled is None or bool(c.enabled())

    def enabled_threads(self):
        return [t for t in sorted(self.ctl) if self.is_enabled(t)]

    def stop_of(self, tid):
        c = self.ctl[tid]
        return (c.state, c.kind, c.where)

    def release(self, tid):
        """Let thread `tid` run to its next stop (or to its end); returns the events it noted."""
        c = self.ctl[tid]
        assert c.state == 'stopped', (tid, c.state)
        self.events = []
        c.state = 'running'
        c.sem.release()
        if not self.back.acquire(timeout=self.timeout):
            raise Deadlock('thread %r did not come back within %.1fs (last stop %r %r)'
                           % (tid, self.timeout, c.kind, c.where))
        ev, self.events = self.events, []
        return ev

    def shutdown(self):
        """Let every thread run free to its end (threads parked at a disabled stop get Shutdown)."""
        self.free_run = True
        for c in self.ctl.values():
            if c.state != 'done':
                c.sem.release()
        deadline = time.time() + self.timeout
        for c in self.ctl.values():
            c.thread.join(max(0.0, deadline - time.time()))
            if c.thread.is_alive():
                raise Deadlock('thread %r still alive at shutdown' % (c.tid,))
