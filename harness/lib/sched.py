"""Controlled thread scheduler: real threads, run one at a time according to a schedule.

A *controlled thread* runs real code; it stops
  * at every 'line' event of the code objects given in `line_codes` (sys.settrace, per thread),
  * wherever the harness calls `Sched.stop(kind, ...)` explicitly (wrappers around Queue.put / Queue.get,
    the point before an event is delivered).
At a stop (and when it ends) the thread calls the `decide` callback given to `Sched.run` with its id and
the events noted (`Sched.note`) since the previous stop; `decide` returns the id of the thread to run
next (or None: the run is over).  If that is the same thread it simply goes on, otherwise it wakes the
chosen thread and sleeps on its own semaphore.  So at any moment exactly one controlled thread runs and
every context switch is decided by the schedule; `decide` itself is never run concurrently.

A stop may carry an `enabled` callable (e.g. "the queue is not empty" for a blocking get): `decide` must
not choose a thread for which `is_enabled` is false - that is how a thread blocked in Queue.get is
represented without ever blocking for real.

Robustness: every wait has a timeout; a timeout raises `Deadlock` in the caller of `run` (the case fails
loudly), threads are daemons, `shutdown()` lets every thread run free to completion and joins them.
"""
import sys
import threading
import time


class Deadlock(Exception):
    pass


class Shutdown(BaseException):
    """Raised inside a controlled thread parked at a disabled stop when the run is over."""


class _Ctl:
    __slots__ = ('tid', 'sem', 'thread', 'state', 'kind', 'enabled', 'where', 'error')

    def __init__(self, tid):
        self.tid = tid
        self.sem = threading.Semaphore(0)
        self.thread = None
        self.state = 'stopped'    # stopped | running | done
        self.kind = 'begin'       # kind of the current stop
        self.enabled = None       # callable or None
        self.where = None         # (function name, line) of a line stop
        self.error = None         # exception that ended the thread, if any


class Sched:
    def __init__(self, line_codes=(), return_codes=(), timeout=5.0):
        self.line_codes = frozenset(line_codes)
        self.return_codes = frozenset(return_codes)   # code objects whose 'return' is noted as an event
        self.timeout = timeout
        self.ctl = {}
        self.local = threading.local()
        self.events = []
        self.free_run = False
        self.finished = threading.Event()
        self.failure = None
        self.decide = None

    # ------------------------------------------------------------------ controlled-thread side
    def _global_trace(self, frame, event, arg):
        if frame.f_code in self.line_codes:
            return self._local_trace
        return None

    def _local_trace(self, frame, event, arg):
        if event == 'line':
            if not self.free_run:
                c = self.local.ctl
                c.where = (frame.f_code.co_name, frame.f_lineno)
                c.kind, c.enabled = 'line', None
                self._handoff(c)
        elif event == 'return' and frame.f_code in self.return_codes:
            self.events.append(('return', frame.f_code.co_name))
        return self._local_trace

    def _handoff(self, c):
        """c has just stopped (or ended): ask who runs next."""
        if c.state != 'done':
            c.state = 'stopped'
        ev, self.events = self.events, []
        try:
            nxt = self.decide(c.tid, ev)
        except BaseException as e:          # a bug in the harness: report it in run()
            self.failure = e
            nxt = None
        if nxt is None:
            self.finished.set()
        elif nxt == c.tid and c.state != 'done':
            c.state = 'running'
            return
        else:
            n = self.ctl[nxt]
            n.state = 'running'
            n.sem.release()
        if c.state != 'done':
            if not c.sem.acquire(timeout=self.timeout * 4):
                raise Shutdown()            # nobody woke us: the run is gone
            c.state = 'running'

    def stop(self, kind, enabled=None):
        """Explicit stop, called by harness code running in a controlled thread."""
        if not self.free_run:
            c = self.local.ctl
            c.where, c.kind, c.enabled = None, kind, enabled
            self._handoff(c)
        if self.free_run and enabled is not None and not enabled():
            raise Shutdown()

    def note(self, *ev):
        self.events.append(ev)

    def _body(self, c, fn):
        self.local.ctl = c
        try:
            if not c.sem.acquire(timeout=self.timeout * 4):
                return
            c.state = 'running'
            sys.settrace(self._global_trace)
            try:
                fn()
            finally:
                sys.settrace(None)
        except Shutdown:
            pass
        except BaseException as e:                # noqa
            c.error = e
        finally:
            c.state = 'done'
            if not self.free_run:
                try:
                    self._handoff(c)
                except Shutdown:
                    pass

    # ------------------------------------------------------------------ controller side
    def spawn(self, tid, fn):
        c = _Ctl(tid)
        self.ctl[tid] = c
        c.thread = threading.Thread(target=self._body, args=(c, fn), daemon=True)
        c.thread.start()

    def is_done(self, tid):
        return self.ctl[tid].state == 'done'

    def is_enabled(self, tid):
        c = self.ctl.get(tid)
        if c is None or c.state != 'stopped':
            return False
        return c.enabled is None or bool(c.enabled())

    def enabled_threads(self):
        return [t for t in sorted(self.ctl) if self.is_enabled(t)]

    def stop_of(self, tid):
        c = self.ctl[tid]
        return (c.state, c.kind, c.where)

    def run(self, decide):
        """decide(tid or None, events) -> next tid or None.  Called first with (None, []) from here, then by
        each thread at each of its stops and at its end.  Returns when decide returns None."""
        self.decide = decide
        nxt = decide(None, [])
        if nxt is not None:
            n = self.ctl[nxt]
            n.state = 'running'
            n.sem.release()
            if not self.finished.wait(self.timeout):
                raise Deadlock('run not finished within %.1fs; threads: %r'
                               % (self.timeout, {t: self.stop_of(t) for t in self.ctl}))
        if self.failure is not None:
            raise self.failure

    def shutdown(self):
        """Let every thread run free to its end (threads parked at a disabled stop get Shutdown)."""
        self.free_run = True
        for c in self.ctl.values():
            if c.state != 'done':
                c.sem.release()
        deadline = time.time() + self.timeout
        for c in self.ctl.values():
            c.thread.join(max(0.0, deadline - time.time()))
            if c.thread.is_alive():
                raise Deadlock('thread %r still alive at shutdown' % (c.tid,))
