"""C20 - abstraction of the real remote (bare repository + pending jobs) into the repository view of
coq/Model/AdminJobs.v, and the executable monitors of the statement evaluated on the real system.

The monitors are written from the property statement only and never look at the model:
  "The create-branch job publishes a new destination branch only if the repository including it still satisfies
   the cascade rules and C01, never while queued pull requests would need new intermediate integration branches,
   and never for a version that was archived; the delete-branch job refuses while the branch has queued pull
   requests or, for a development branch, a live stabilization branch, and otherwise leaves an archive tag on the
   deleted tip.  A job that refuses leaves the remote untouched; queue rebuild and delete jobs remove only q/*
   branches, and rebuild re-submits exactly the pull requests that were queued, in queue order."
Each monitor returns a list of violation dicts {'what', 'key', ...} (empty = the clause held).
"""
import os
import re
import shutil
import subprocess
import tempfile

from . import monitors

DEV = re.compile(r'^development/(\d+)(?:\.(\d+))?$')
STAB = re.compile(r'^stabilization/(\d+)\.(\d+)\.(\d+)$')
HOTFIX = re.compile(r'^hotfix/(\d+)\.(\d+)\.(\d+)$')
QM = re.compile(r'^q/(\d+)(?:\.(\d+))?(?:\.(\d+)(?:\.(\d+))?)?$')
QW = re.compile(r'^q/w/(\d+)/(\d+)(?:\.(\d+))?(?:\.(\d+)(?:\.(\d+))?)?/(.+)$')
REFUSALS = ('JobFailure', 'NothingToDo', 'NotMyJob')
OUTCOMES = REFUSALS + ('JobSuccess',)


def parse_dest(n):
    """('dev'|'stab'|'hotfix', major, minor or None, micro or None, version text) or None."""
    m = DEV.match(n)
    if m and '\n' not in n:
        return ('dev', int(m.group(1)), None if m.group(2) is None else int(m.group(2)), None, n.split('/', 1)[1])
    m = STAB.match(n)
    if m and '\n' not in n:
        return ('stab', int(m.group(1)), int(m.group(2)), int(m.group(3)), n.split('/', 1)[1])
    m = HOTFIX.match(n)
    if m and '\n' not in n:
        return ('hotfix', int(m.group(1)), int(m.group(2)), int(m.group(3)), n.split('/', 1)[1])
    return None


def line_key(major, minor):
    return (major, 1 if minor is None else 0, minor or 0)


# ------------------------------------------------------------------------------------------ the view

def number_commits(graph):
    """sha -> cid such that every parent has a smaller number (deterministic)."""
    order, state = [], {}
    for root in sorted(graph):
        stack = [(root, 0)]
        while stack:
            sha, i = stack.pop()
            if state.get(sha) == 2:
                continue
            ps = [p for p in graph[sha][0] if p in graph]
            if i == 0:
                if state.get(sha) == 1:
                    continue
                state[sha] = 1
            if i < len(ps):
                stack.append((sha, i + 1))
                if state.get(ps[i]) is None:
                    stack.append((ps[i], 0))
            else:
                state[sha] = 2
                order.append(sha)
    return {sha: i for i, sha in enumerate(order)}, order


def _cmp_queues(a, b):
    """compare_queues on version tuples (minor None = major-only development line)."""
    if a[0] == b[0] and a[1] == b[1]:
        if len(a) == 3 and len(b) == 2:
            return -1
        if len(b) == 3 and len(a) == 2:
            return 1
    if a[0] == b[0]:
        if a[1] == b[1]:
            return 0
        if a[1] is None:
            return 1
        if b[1] is None:
            return -1
        return a[1] - b[1]
    return a[0] - b[0]


def queue_view(world, refs):
    """The QueueCollection as the statement sees it: per queue version (in queue order) whether q/<v> exists
    and the ids of the q/w/<id>/<v>/... branches, newest first by real git ancestry."""
    from functools import cmp_to_key
    entries = {}
    order = []
    for n in sorted(refs):
        m = QM.match(n)
        pr = None
        if m:
            comps = m.groups()
        else:
            m = QW.match(n)
            if not m:
                continue
            pr = int(m.group(1))
            comps = m.groups()[1:5]
        v = tuple(None if c is None else int(c) for c in comps)
        while len(v) > 2 and v[-1] is None:
            v = v[:-1]
        if v not in entries:
            entries[v] = {'master': False, 'qw': []}
            order.append(v)
            order.sort(key=cmp_to_key(_cmp_queues))      # stable, as OrderedDict(sorted(...))
        if pr is None:
            entries[v]['master'] = True
        else:
            entries[v]['qw'].append((pr, refs[n]))
    view = []
    for v in order:
        qw = entries[v]['qw']
        # newest first: a queue commit contains the older ones of its version
        depth = {pr: sum(1 for _, other in qw if world.is_ancestor(other, sha)) for pr, sha in qw}
        prs = [pr for pr, _ in sorted(qw, key=lambda x: (-depth[x[0]], x[0]))]
        view.append({'v': list(v), 'master': entries[v]['master'], 'prs': prs})
    return view


def view_of(world, dump=None):
    refs = dump['refs'] if dump else world.refs()
    tags = dump['tags'] if dump else world.tags()
    graph = world.graph()
    cid, order = number_commits(graph)
    return {'cid': cid, 'order': order, 'graph': graph,
            'heads': [(n, cid[refs[n]]) for n in sorted(refs)],
            'tags': [(t, cid[tags[t]]) for t in sorted(tags) if tags[t] in cid],
            'queues': queue_view(world, refs)}


def hx(s):
    return s.encode().hex()


def encode_view(view):
    store = ';'.join('r' if not [p for p in view['graph'][sha][0] if p in view['cid']] else
                     '.'.join(str(view['cid'][p]) for p in view['graph'][sha][0] if p in view['cid'])
                     for sha in view['order'])
    heads = ','.join('%s:%d' % (hx(n), c) for n, c in view['heads']) or '-'
    tags = ','.join('%s:%d' % (hx(n), c) for n, c in view['tags']) or '-'
    qs = []
    for e in view['queues']:
        v = list(e['v']) + [None] * (4 - len(e['v']))
        qs.append('%d:%s:%s:%s:%d:%s' % (v[0], 'N' if v[1] is None else v[1], 'N' if v[2] is None else v[2],
                                         'N' if v[3] is None else v[3], e['master'],
                                         '.'.join(map(str, e['prs'])) or '-'))
    return 'store=%s heads=%s tags=%s qs=%s' % (store or '-', heads, tags, '|'.join(qs) or '-')


# ------------------------------------------------------------------------------------------ monitors

def fresh_cascade_check(world):
    """Build and validate the real BranchCascade on a fresh clone of the remote.  None = valid."""
    from bert_e.lib import git as libgit
    from bert_e.workflow.gitwaterflow.branches import BranchCascade
    d = tempfile.mkdtemp(prefix='c20_clone_', dir=world.scratch)
    try:
        subprocess.run(['git', 'clone', '-q', world.url, os.path.join(d, 'c')], check=True,
                       stdout=subprocess.DEVNULL, stderr=subprocess.DEVNULL)
        repo = libgit.Repository(world.url)
        shutil.rmtree(repo.tmp_directory, ignore_errors=True)
        repo.tmp_directory = d
        repo.cmd_directory = os.path.join(d, 'c')
        # local branches for every remote head, as Bert-E's own clone has them
        for n in world.refs():
            subprocess.run(['git', 'branch', '-q', '--force', n, 'origin/' + n], cwd=repo.cmd_directory,
                           stdout=subprocess.DEVNULL, stderr=subprocess.DEVNULL)
        try:
            c = BranchCascade()
            c.build(repo)
            c.validate()
            return None
        except Exception as e:
            return type(e).__name__
    finally:
        shutil.rmtree(d, ignore_errors=True)


def cascade_rule_failures(refs, tags):
    """The cascade rules of GitWaterFlow on names and tags: a stabilization branch has its development branch,
    at most one per line, and holds the next unreleased patch of its line."""
    bad = []
    dests = [(n, parse_dest(n)) for n in refs]
    dests = [(n, d) for n, d in dests if d]
    devs = {(d[1], d[2]) for n, d in dests if d[0] == 'dev'}
    seen = {}
    for n, d in dests:
        if d[0] == 'hotfix':
            continue
        k = (d[0], d[1], d[2])
        if k in seen:
            bad.append(('two branches on one line', seen[k], n))
        seen[k] = n
        if d[0] == 'stab':
            if (d[1], d[2]) not in devs:
                bad.append(('stabilization branch without development branch', n))
            rel = [-1]
            for t in tags:
                m = re.match(r'^v?(\d+)\.(\d+)\.(\d+)(?:\.(\d+))?$', t)
                if m and '\n' not in t and (int(m.group(1)), int(m.group(2))) == (d[1], d[2]):
                    rel.append(int(m.group(3)))
            if d[3] != max(rel) + 1:
                bad.append(('stabilization branch does not hold the next patch', n, max(rel) + 1))
    return bad


def archive_tags_of(name):
    """Tags that mean "this branch was archived": what delete-branch leaves behind."""
    d = parse_dest(name)
    if d is None:
        return []
    return [d[4] + '.archived_hotfix_branch'] if d[0] == 'hotfix' else [d[4]]


def same_version_archived(tag, d):
    """Is `tag` the archive tag of the same version as d, the numbers compared as numbers?  (A three-number tag
    is a release tag as well: only development and hotfix archive tags are unambiguous.)"""
    if d[0] == 'dev':
        m = re.match(r'^(\d+)(?:\.(\d+))?$', tag)
        return bool(m) and '\n' not in tag and \
            (int(m.group(1)), None if m.group(2) is None else int(m.group(2))) == (d[1], d[2])
    if d[0] == 'hotfix':
        m = re.match(r'^(\d+)\.(\d+)\.(\d+)\.archived_hotfix_branch$', tag)
        return bool(m) and tuple(int(x) for x in m.groups()) == (d[1], d[2], d[3])
    return False


def queued_on(refs, d):
    """ids of the pull requests queued on the destination branch d (parsed)."""
    res = []
    for n in refs:
        m = QW.match(n)
        if not m:
            continue
        v = [None if c is None else int(c) for c in m.groups()[1:5]]
        if d[0] == 'dev' and v[2] is None and (v[0], v[1]) == (d[1], d[2]):
            res.append(int(m.group(1)))
        if d[0] == 'stab' and v[3] is None and (v[0], v[1], v[2]) == (d[1], d[2], d[3]):
            res.append(int(m.group(1)))
        if d[0] == 'hotfix' and v[3] is not None and (v[0], v[1], v[2]) == (d[1], d[2], d[3]):
            res.append(int(m.group(1)))
    return sorted(set(res))


def needs_intermediate(refs, d):
    """pull requests queued both below and above the new development line d."""
    below, above = set(), set()
    k = line_key(d[1], d[2])
    for n in refs:
        m = QW.match(n)
        if not m:
            continue
        v = [None if c is None else int(c) for c in m.groups()[1:5]]
        if v[3] is not None:
            continue
        qk = line_key(v[0], v[1])
        if qk < k:
            below.add(int(m.group(1)))
        if qk > k:
            above.add(int(m.group(1)))
    return sorted(below & above)


def mon_create(world, ev, before, rec, after):
    out = []
    name = ev['args']['branch']
    if rec['status'] != 'JobSuccess' or parse_dest(name) is None:
        return out
    b, a = before['refs'], after['refs']
    if name not in a:
        out.append({'what': 'create succeeded but the branch is not on the remote', 'key': 'create_success_without_branch'})
        return out
    bad = monitors.incl_failures(world, a)
    if bad:
        out.append({'what': 'forward-port inclusion does not hold after create', 'pairs': bad,
                    'key': 'create_inclusion_lost'})
    rules = cascade_rule_failures(a, after['tags'])
    if rules:
        out.append({'what': 'cascade rules do not hold after create', 'rules': rules, 'key': 'create_cascade_rules'})
    err = fresh_cascade_check(world)
    if err:
        out.append({'what': 'the real BranchCascade rejects the remote after create', 'error': err,
                    'key': 'create_cascade_invalid'})
    arch = [t for t in archive_tags_of(name) if t in before['tags']]
    if arch:
        d = parse_dest(name)
        out.append({'what': 'create re-created an archived branch', 'tags': arch,
                    'key': 'create_archived_hotfix_recreated' if d[0] == 'hotfix' else 'create_archived_recreated'})
    if not arch:
        other = [t for t in before['tags'] if same_version_archived(t, parse_dest(name))]
        if other:
            out.append({'what': 'create re-created an archived version under another spelling', 'tags': other,
                        'key': 'create_archived_recreated_other_spelling'})
    d = parse_dest(name)
    if d[0] == 'dev':
        ni = needs_intermediate(b, d)
        if ni:
            out.append({'what': 'create succeeded while queued pull requests need a new intermediate integration '
                                'branch', 'prs': ni, 'key': 'create_intermediate_with_queued_prs'})
    return out


def mon_delete(world, ev, before, rec, after):
    out = []
    name = ev['args']['branch']
    d = parse_dest(name)
    if rec['status'] != 'JobSuccess' or d is None:
        return out
    b = before['refs']
    if name not in b:
        return out
    if name in after['refs']:
        out.append({'what': 'delete succeeded but the branch is still there', 'key': 'delete_success_branch_left'})
    # the archive tag must point at the tip the branch had BEFORE the job, not merely exist
    tagged = [t for t in archive_tags_of(name) if after['tags'].get(t) == b[name]]
    if not tagged:
        elsewhere = {t: after['tags'][t] for t in archive_tags_of(name)
                     if t in after['tags'] and t not in before['tags']}
        if elsewhere:
            where = {t: sorted(n for n, s in b.items() if s == sha) for t, sha in elsewhere.items()}
            out.append({'what': 'the archive tag was put on another commit than the deleted tip',
                        'deleted_tip': b[name], 'tag': elsewhere, 'that_commit_was_the_tip_of': where,
                        'key': 'delete_archive_tag_on_wrong_commit'})
        else:
            out.append({'what': 'no archive tag on the deleted tip', 'key': 'delete_no_archive_tag'})
    q = queued_on(b, d)
    if q:
        out.append({'what': 'branch deleted while pull requests are queued on it', 'prs': q,
                    'key': 'delete_with_queued_prs'})
    # well-formed: no queue branch of the deleted branch survives it (q/<version>, q/w/<pr>/<version>/...; the queue
    # of a hotfix branch carries a fourth number)
    ver = d[4]
    orphans = sorted(n for n in after['refs'] if re.match(
        r'^q/(w/\d+/)?%s%s(/|$)' % (re.escape(ver), r'\.\d+' if d[0] == 'hotfix' else ''), n))
    if orphans:
        out.append({'what': 'delete succeeded but left queue branches of the deleted branch behind', 'refs': orphans,
                    'key': 'delete_left_orphan_queue'})
    if d[0] == 'dev':
        live = [n for n in b if (parse_dest(n) or ('',))[0] == 'stab' and parse_dest(n)[1:3] == d[1:3]]
        if live:
            canonical = all(n == 'stabilization/%d.%d.%d' % parse_dest(n)[1:4] for n in live) and \
                name == ('development/%d' % d[1] if d[2] is None else 'development/%d.%d' % (d[1], d[2]))
            out.append({'what': 'development branch deleted while it has a live stabilization branch', 'live': live,
                        'key': 'delete_dev_live_stabilization' if canonical else
                               'delete_dev_live_stabilization_noncanonical'})
    return out


def mon_refusal(world, ev, before, rec, after):
    """A job that refuses (or does not end in one of the four outcomes) leaves the remote untouched."""
    if rec['status'] == 'JobSuccess':
        return []
    out = []
    if before['refs'] != after['refs'] or before['tags'] != after['tags'] or before['pending'] != after['pending']:
        changed = sorted(n for n in set(before['refs']) | set(after['refs'])
                         if before['refs'].get(n) != after['refs'].get(n))
        tchanged = sorted(n for n in set(before['tags']) | set(after['tags'])
                          if before['tags'].get(n) != after['tags'].get(n))
        if rec['status'] in REFUSALS:
            key = 'refusal_mutated_remote'
        elif ev['kind'] == 'create_branch':
            key = 'create_pushed_then_crashed_in_rebuild'
        else:
            key = 'crash_mutated_remote'
        if rec.get('fault'):
            key += '_under_fault'
        out.append({'what': 'job ended with %s after changing the remote' % rec['status'], 'refs': changed,
                    'tags': tchanged, 'key': key})
    return out


class world_before:
    """Ancestry oracle for commits of the state before the job (the objects are still in the bare repository)."""

    def __init__(self, world, refs):
        self.world = world

    def is_ancestor(self, a, b):
        return self.world.is_ancestor(a, b)


def mon_queues(world, ev, before, rec, after, queue_order=None):
    """rebuild / delete queues remove only q/* branches; rebuild re-submits the queued pull requests in order."""
    out = []
    b, a = before['refs'], after['refs']
    for n in set(b) | set(a):
        if not n.startswith('q/') and b.get(n) != a.get(n):
            out.append({'what': 'queue job changed a branch that is not q/*', 'ref': n,
                        'key': 'queues_changed_non_queue_branch'})
    if before['tags'] != after['tags']:
        out.append({'what': 'queue job changed tags', 'key': 'queues_changed_tags'})
    for n in a:
        if n.startswith('q/') and b.get(n) != a[n]:
            out.append({'what': 'queue job created or moved a q/* branch', 'ref': n, 'key': 'queues_moved_queue_branch'})
    had_queues = any(n.startswith('q/') for n in b)
    if rec['status'] == 'JobSuccess':
        left = [n for n in a if n.startswith('q/')]
        if left:
            out.append({'what': 'q/* branches left after a successful queue job', 'refs': left, 'key': 'queues_left'})
        if ev['kind'] == 'rebuild_queues' and queue_order is not None:
            got = after['pending'][len(before['pending']):]
            ids = []
            for j in got:
                m = re.match(r'^Webhook for pull request #(\d+)$', j)
                ids.append(int(m.group(1)) if m else j)
            queued = set()
            for n in b:
                m = QW.match(n)
                if m:
                    queued.add(int(m.group(1)))
            problems = []
            if sorted(ids, key=str) != sorted(queued, key=str) or len(set(ids)) != len(ids):
                problems.append('not exactly the queued pull requests, once each')
            # queue order: inside every queue version, older entries first (real git ancestry), and the order in
            # which the scenario queued them
            for e in queue_view(world_before(world, b), b):
                oldest_first = [p for p in reversed(e['prs']) if p in ids]
                if [p for p in ids if p in oldest_first] != oldest_first:
                    problems.append('order inside queue version %s' % e['v'])
                known = [p for p in queue_order if p in e['prs']]
                if [p for p in ids if p in known] != known:
                    problems.append('order of queueing inside version %s' % e['v'])
            if problems:
                out.append({'what': 'rebuild did not re-submit exactly the queued pull requests in queue order',
                            'queued': sorted(queued), 'got': got, 'problems': problems,
                            'key': 'rebuild_wrong_requeue'})
    elif rec['status'] not in OUTCOMES and ev['kind'] == 'rebuild_queues' and had_queues and queue_order:
        out.append({'what': 'rebuild_queues ended with %s: the queued pull requests are not re-submitted'
                            % rec['status'], 'queued': queue_order,
                    'key': 'rebuild_crash_hotfix_or_stab_queue_first'
                    if rec['status'] == 'UnrecognizedBranchPattern' else 'rebuild_crash'})
    return out
