"""C02 - executable monitors of the statement, evaluated on the real bare repository (written from the
statement, nothing here looks at the model):

  "the changes of each pull request are on all of its target branches or on none of them, and the inclusion
   invariant of C01 still holds. [...] re-delivering the event to a fresh Bert-E [...] ends with the same content
   on every target branch as the uninterrupted run."

plus the encoders that hand the same observations to the extracted specification / model
(ocaml/C02_driver.ml): commit graph -> store, refs -> refmap, operation list -> publication list.
"""
import re

from .monitors import chain_pairs, incl_failures, is_dest

ROBOT = 'bert-e'


# ----------------------------------------------------------------------------------- the statement
def dest_order(refs):
    """Destination branches in cascade order (stabilization x.y.z before development x.y, development x last)."""
    devs = []
    for n in refs:
        m = re.match(r'^development/(\d+)(?:\.(\d+))?$', n)
        if m:
            devs.append(((int(m.group(1)), 1 if m.group(2) is None else 0, int(m.group(2) or 0), 1, 0), n))
        m = re.match(r'^stabilization/(\d+)\.(\d+)\.(\d+)$', n)
        if m:
            devs.append(((int(m.group(1)), 0, int(m.group(2)), 0, int(m.group(3))), n))
    return [n for _, n in sorted(devs)]


def targets_of(refs, dst):
    """Target branches of a pull request: its destination followed by the later development branches; a
    hotfix destination alone."""
    if dst not in refs:
        return []
    if dst.startswith('hotfix/'):
        return [dst]
    order = dest_order(refs)
    if dst not in order:
        return []
    i = order.index(dst)
    return [dst] + [d for d in order[i + 1:] if d.startswith('development/')]


def open_user_prs(dump):
    """User pull requests that are OPEN in this dump, with the tip of their source and their targets."""
    refs = dump['refs']
    res = []
    for p in dump['prs']:
        if p['author'] == ROBOT or p['state'] != 'OPEN' or p['src'] not in refs:
            continue
        ts = targets_of(refs, p['dst'])
        if ts:
            res.append({'id': p['id'], 'tip': refs[p['src']], 'targets': ts, 'src': p['src'], 'dst': p['dst']})
    return res


def landed_vector(world, refs, pr):
    return [t in refs and world.is_ancestor(pr['tip'], refs[t]) for t in pr['targets']]


def all_or_none_failures(world, refs, prs):
    """[(pr, vector)] for the pull requests whose change is on some targets only."""
    bad = []
    for pr in prs:
        v = landed_vector(world, refs, pr)
        if any(v) and not all(v):
            bad.append((pr, v))
    return bad


def eligible_prs(world, before):
    """The pull requests the statement quantifies over at this job: open before the job and all-or-none
    before it (a pull request that is already half-way for another reason is not this job's doing)."""
    prs = open_user_prs(before)
    bad = {p['id'] for p, _ in all_or_none_failures(world, before['refs'], prs)}
    return [p for p in prs if p['id'] not in bad], sorted(bad)


def state_violations(world, before, refs_now, prs=None):
    """AllOrNone + forward-port inclusion on the remote refs `refs_now`, for a job that started in `before`."""
    out = []
    if prs is None:
        prs, _ = eligible_prs(world, before)
    for pr, v in all_or_none_failures(world, refs_now, prs):
        out.append({'what': 'all-or-none', 'pr': pr['id'], 'src': pr['src'],
                    'landed_on': [t for t, x in zip(pr['targets'], v) if x],
                    'missing_on': [t for t, x in zip(pr['targets'], v) if not x]})
    if not incl_failures(world, before['refs']):
        bad = incl_failures(world, refs_now)
        if bad:
            out.append({'what': 'inclusion', 'pairs': bad})
    return out


def mon_c02(world, ev, before, rec, after):
    """Monitor in the common signature (usable with lib/sysrun.py): the state a job leaves, faulty or not."""
    return state_violations(world, before, after['refs'])


def dest_trees(world, refs):
    """Content of every destination branch: name -> tree id."""
    return {n: world.tree(sha) for n, sha in refs.items() if is_dest(n)}


def tree_differences(trees_ok, trees_now):
    return sorted(n for n in set(trees_ok) | set(trees_now) if trees_ok.get(n) != trees_now.get(n))


# ----------------------------------------------------------------------------------- names
def name_class(n):
    if is_dest(n):
        return 'dest'
    if n.startswith('q/w/'):
        return 'qw'
    if n.startswith('q/'):
        return 'q'
    if n.startswith('w/'):
        return 'w'
    if n.startswith('tmp/'):
        return 'tmp'
    return 'other'


def op_kind(op):
    """Stable description of a recorded remote operation: kind, plus the classes of the names of a named push."""
    if op['kind'] == 'push':
        names = [x.lstrip(':') for x in op['detail']]
        dele = all(x.startswith(':') for x in op['detail'])
        return ('del[' if dele else 'push[') + '+'.join(sorted({name_class(x) for x in names})) + ']'
    return op['kind']


# ----------------------------------------------------------------------------------- encoders for the model
class Enc:
    """Numbering of commits (parents first) and branch names shared by all requests about one job."""

    def __init__(self, graph):
        self.graph = graph
        order, seen = [], set()
        for root in sorted(graph):
            stack = [(root, False)]
            while stack:
                n, done = stack.pop()
                if done:
                    order.append(n)
                    continue
                if n in seen or n not in graph:
                    continue
                seen.add(n)
                stack.append((n, True))
                for p in reversed(graph[n]):
                    if p not in seen:
                        stack.append((p, False))
        self.order = order
        self.idx = {s: i for i, s in enumerate(order)}
        self.closed = all(p in self.idx for s in order for p in graph[s])
        self.names = {}

    def store(self):
        if not self.order:
            return '-'
        return ';'.join(','.join(str(self.idx[p]) for p in self.graph[s]) or '-' for s in self.order)

    def name(self, n):
        return self.names.setdefault(n, len(self.names))

    def knows(self, refs):
        return all(s in self.idx for s in refs.values())

    def refs(self, refs):
        items = ['%d:%d' % (self.name(n), self.idx[s]) for n, s in sorted(refs.items())]
        return ','.join(items) if items else '-'

    def names_list(self, names):
        return ','.join(str(self.name(n)) for n in names) if names else '-'

    def decode_refs(self, answer):
        """'R 1:2,3:4' -> {name: sha}"""
        inv = {v: k for k, v in self.names.items()}
        body = answer[2:].strip() if answer.startswith('R') else ''
        res = {}
        if body and body != '-':
            for kv in body.split(','):
                k, v = kv.split(':')
                res[inv[int(k)]] = self.order[int(v)]
        return res


def pub_list(rec):
    """Publication list of a recorded (fault-free) job in the vocabulary of coq/Model/Publish.v:
    [('P', local, names) | ('D', names) | ('A', local, deleted) | ('H',)], or raises ValueError."""
    trace = {t.get('opi'): t for t in rec.get('trace', []) if t['op'] in ('push', 'push_all')}
    ops = []
    for op in rec['ops']:
        k = op['kind']
        if k == 'push':
            names = list(op['detail'])
            t = trace.get(op['i'])
            if all(n.startswith(':') for n in names):
                ops.append(('D', [n[1:] for n in names]))
            elif any(n.startswith(':') for n in names):
                raise ValueError('push mixing updates and deletions: %r' % names)
            else:
                if not t or t.get('local') is None:
                    raise ValueError('named push without recorded local refs')
                ops.append(('P', t['local'], names))
        elif k == 'push_all':
            t = trace.get(op['i'])
            if not t or t.get('local') is None:
                raise ValueError('push_all without recorded local refs')
            if t.get('uses_prune'):
                raise ValueError('push_all uses --prune')
            ops.append(('A', t['local'], list(t.get('deleted', []))))
        else:
            ops.append(('H',))
    return ops


def enc_ops(enc, ops):
    out = []
    for o in ops:
        if o[0] == 'P':
            out.append('P%s/%s' % (enc.refs(o[1]), enc.names_list(o[2])))
        elif o[0] == 'D':
            out.append('D%s' % enc.names_list(o[1]))
        elif o[0] == 'A':
            out.append('A%s/%s' % (enc.refs(o[1]), enc.names_list(o[2])))
        else:
            out.append('H')
    return '|'.join(out) if out else '-'


def enc_fault(enc, fault):
    if not fault:
        return 'N'
    m = fault['mode']
    if m == 'crash_before':
        return 'B%d' % fault['at']
    if m == 'crash_after':
        return 'A%d' % fault['at']
    if m == 'reject':
        return 'J%d:%d' % (fault.get('at', 0), enc.name(fault['ref']))
    raise ValueError(fault)


def enc_prs(enc, prs):
    items = ['%d:%s' % (enc.idx[p['tip']], '+'.join(str(enc.name(t)) for t in p['targets'])) for p in prs]
    return ','.join(items) if items else '-'


def enc_pairs(enc, pairs):
    return ','.join('%d:%d' % (enc.name(a), enc.name(b)) for a, b in pairs) if pairs else '-'


def shape_problems(ev, ops, refs_before):
    """The shape the theorems are stated for (Spec.shape_ok), checked on names: at most one atomic push; named
    pushes / deletions only of w/ and q/ names - except the one new destination of a create_branch job and the
    destination a delete_branch job removes."""
    out = []
    if sum(1 for o in ops if o[0] == 'A') > 1:
        out.append('more than one atomic push of all heads')
    api = ev.get('kind') if ev.get('e') == 'job_api' else None
    for o in ops:
        if o[0] not in ('P', 'D'):
            continue
        names = o[2] if o[0] == 'P' else o[1]
        for n in names:
            c = name_class(n)
            if c in ('w', 'q', 'qw'):
                continue
            if c == 'dest' and o[0] == 'P' and api == 'create_branch' and n not in refs_before \
                    and n == ev.get('args', {}).get('branch') and len(names) == 1:
                continue
            if c == 'dest' and o[0] == 'D' and api == 'delete_branch' and n == ev.get('args', {}).get('branch'):
                continue
            out.append('%s of %s by name' % ('push' if o[0] == 'P' else 'deletion', n))
    return out
