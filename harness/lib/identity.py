"""Who is who: the identity layer under every gate that compares users (C04 leaders / robot / author, C07 admins).

The gate models compare users by equality of names.  In the real system the configured users (robot, admins,
project_leaders) are objects built by the settings loader from 'name' or 'name@account_id', and the host reports
plain strings; the gates then use ==, `in <list>` and set operations between the two.  This module ties the
model's "equal names" to that layer: for configured users loaded by the REAL settings schema and host strings
around them,
  * a host string that is the user's primary identifier (the account id when there is one, else the username) is
    recognised by ==, by list membership and by set membership / intersection in both directions;
  * a host string that is neither the username nor the account id is recognised by none of them.
(The remaining case - an account id is configured and the host reports the username - is left open: == says yes,
hashing says no, already on the unchanged code; Bitbucket reports account ids.)"""
from . import core

FORMS = ['alice', 'Alice', 'alice@u-123', 'alice@U-123', 'none', 'boss', 'boss@none', 'x@alice', 'null', 'n0ne']
HOST_STRINGS = ['alice', 'Alice', 'u-123', 'U-123', 'none', 'None', 'NONE', 'null', '', 'boss', 'x', 'bob', 'n0ne',
                'alice@u-123']


def check(ctx, what):
    from bert_e.settings import UserSettingSchema
    for form in FORMS:
        try:
            u = UserSettingSchema().load(form)
        except Exception as exc:
            ctx.mismatch({'configured': form}, type(exc).__name__, 'loaded', 'settings user schema')
            continue
        username = form.split('@')[0].lower()
        account = form.split('@')[1] if '@' in form else None
        primary = account if account else username
        for h in HOST_STRINGS:
            ctx.evaluations += 1
            obs = {'==': bool(h == u), 'list': h in [u], 'set': h in {u}, 'set_rev': u in {h},
                   'intersection': bool({h} & {u}), 'difference_removes': len({h} - {u}) == 0}
            inp = {'configured_user': form, 'host_reports': h, 'used_by': what}
            if h == primary:
                want = True
            elif h != username and h != account:
                want = False
            else:
                ctx.count('identity:open_case')
                continue
            ctx.count('identity:%s' % ('same' if want else 'different'))
            bad = {k: v for k, v in obs.items() if v != want}
            if bad:
                ctx.violation(inp, {k: want for k in bad}, bad,
                              'the settings user %r and the host string %r are %s, but the comparisons the gates use '
                              'say otherwise' % (form, h, 'the same user' if want else 'different users'),
                              key=core.canon({'what': 'user identity', 'ops': sorted(bad), 'want': want}))
