"""Parallel runner of system-level histories shared by the history properties (C01, C03, C08, ...).

Every worker process runs whole histories on its own sysworld.World, evaluates the requested monitors after
every Bert-E job, replays every recorded `git merge` / push on the extracted model (trace correspondence) and
compares the merges that write destination branches with the operation list the model fragment prescribes."""
import json
import os
import time
import traceback
from multiprocessing import get_context

from . import core


def _check_trace(world, ev, before, rec, after, model, out, only_pipeline=False):
    """Trace correspondence for one job; appends to out['mismatch'] / counters."""
    from . import tracecheck as tc
    if only_pipeline:
        from . import pipeline
        pipeline.check(rec, ev, model, out)
        return
    graph = world.local_graph(tc.shas_of(rec))
    cases = tc.merge_cases(rec, graph) + tc.push_cases(rec, graph)
    if cases:
        answers = model.batch([c[0] for c in cases])
        for (req, exp, desc), got in zip(cases, answers):
            out['trace_ops'] += 1
            ok = tc.merge_agrees(exp, got) if req.startswith('merge') else (exp == got)
            if req.startswith('merge'):
                out['hist']['merge:' + (exp.split(' ')[0])] = out['hist'].get('merge:' + exp.split(' ')[0], 0) + 1
            else:
                out['hist']['push:' + desc['kind']] = out['hist'].get('push:' + desc['kind'], 0) + 1
            if not ok:
                out['mismatch'].append({'function': 'git_merge' if req.startswith('merge') else 'push',
                                        'input': {'event': ev, 'op': desc, 'request': req[:400]},
                                        'impl': exp, 'model': got})
    # the control skeleton of every handler that ran (Model/Pipeline.v)
    from . import pipeline
    pipeline.check(rec, ev, model, out)
    # destination-writing merges against the prescribed fragment
    eff = tc.effective_dest_ops(rec)
    if eff:
        _check_fragment(world, ev, before, rec, after, eff, model, out)
    # a job that ends Queued ran add_to_queue: its merges on the master queues against the model fragment, and
    # the conclusions of add_to_queue_spec on the real post-state
    if rec.get('status') == 'Queued':
        _check_queue_fragment(world, ev, before, rec, after, tc.effective_ops(rec, tc.is_master_queue), model, out)
    # update_integration_branches: the merges recorded on the pull request's w/ branches against Gate.update_ops
    effw = tc.effective_ops(rec, tc.is_integration)
    if effw or rec.get('status') in tc.AFTER_UPDATE:
        _check_update_fragment(world, ev, before, rec, after, effw, model, out)
    # a direct merge while queues are on: the queue was skipped, so the model's is_needed must answer False and
    # check_in_sync True on the clone as it was just before the first destination merge
    if rec.get('status') == 'SuccessMessage' and world.cfg['use_queue'] and eff:
        _check_skip_queue(world, ev, before, rec, after, eff, graph, model, out)


def _expected_pairs(world, before, pr):
    """(target, integration branch) pairs of a pull request, from the statement of C09: the destination, then
    every later development branch; the first integration branch is the source branch itself."""
    from . import tracecheck as tc
    refs = before['refs']
    dst, src = pr['dst'], pr['src']
    if dst.startswith('hotfix/'):
        return [(dst, src)]
    later = [b for a, b in tc.later_pairs([n for n in refs if tc.is_dest(n)]) if a == dst
             and b.startswith('development/')]
    targets = [dst] + sorted(set(later), key=_dev_key)
    return [(targets[0], src)] + [(t, 'w/%s/%s' % (tc.version_of(t), src)) for t in targets[1:]]


def _dev_key(n):
    import re
    m = re.match(r'^development/(\d+)(?:\.(\d+))?$', n)
    return (int(m.group(1)), float('inf') if m.group(2) is None else int(m.group(2)))


def _pr_of_job(ev, before, first_src):
    """The pull request a job evaluates: the one of the event (its parent for an event on a child pull request);
    for a commit event, the open one whose source branch is `first_src`."""
    import re
    pr = None
    if ev.get('e') == 'job_pr':
        pr = next((p for p in before['prs'] if p['id'] == ev['pr']), None)
        if pr and pr['author'] == 'bert-e':     # event on a child pull request: the parent is evaluated
            ids = re.findall(r'\d+', pr['description'])
            pr = next((p for p in before['prs'] if ids and p['id'] == int(ids[0])), None)
    if pr is None:
        pr = next((p for p in before['prs'] if p['src'] == first_src and p['state'] == 'OPEN'), None)
    return pr


def _queue_triples(after, pr, pairs):
    """(master queue, integration branch, new queue-integration branch) per target, as queueing.py names them:
    q/<version>, q/w/<pr id>/<version>/<source>.  The queue of a hotfix branch carries the four-number version
    the cascade computed from the tags; it is read from the names the real refs carry."""
    import re
    from . import tracecheck as tc
    refs = after['refs']
    triples = []
    for t, w in pairs:
        ver = tc.version_of(t)
        if t.startswith('hotfix/'):
            pat = re.compile(r'^q/w/%d/(%s\.\d+)/%s$' % (pr['id'], re.escape(ver), re.escape(pr['src'])))
            cands = sorted(m.group(1) for m in (pat.match(n) for n in refs) if m)
            if not cands:
                pat = re.compile(r'^q/(%s\.\d+)$' % re.escape(ver))
                cands = sorted(m.group(1) for m in (pat.match(n) for n in refs) if m)
            if cands:
                ver = cands[-1]
        triples.append(('q/%s' % ver, w, 'q/w/%d/%s/%s' % (pr['id'], ver, pr['src'])))
    return triples


def _check_queue_fragment(world, ev, before, rec, after, effq, model, out):
    """add_to_queue of one pull request (the job ended Queued): the merges recorded on the master queue branches
    must be add_to_queue_ops of the model for the triples derived from the pull request, and the conclusions
    (b)-(e) of add_to_queue_spec (Proofs/QueueProofs.v) must hold on the real remote after the job."""
    import re
    out['hist']['fragment:add_to_queue'] = out['hist'].get('fragment:add_to_queue', 0) + 1

    def bad(fn, inp, impl, mod):
        inp = dict(inp, event=ev)
        out['mismatch'].append({'function': fn, 'input': inp, 'impl': impl, 'model': mod})

    if not effq:
        bad('add_to_queue_ops', {}, [], 'a job that ends Queued merges into the master queues')
        return
    pr = _pr_of_job(ev, before, effq[0][1][0])
    if pr is None:
        bad('add_to_queue_ops', {'ops': effq}, effq, 'no pull request explains these queue merges')
        return
    pairs = _expected_pairs(world, before, pr)
    triples = _queue_triples(after, pr, pairs)
    names = {}
    for q, w, qi in triples:
        for n in (q, w, qi):
            names.setdefault(n, len(names))
    for d, ss in effq:
        names.setdefault(d, len(names))
        for x in ss:
            names.setdefault(x, len(names))
    # the strategy of each step, from the shape of the real operations (strategy_ops s q w prev_qint)
    per_dst = {}
    for d, ss in effq:
        per_dst.setdefault(d, []).append(ss)
    sg = ''
    for k in range(1, len(triples)):
        q, w, _qi = triples[k]
        prev = triples[k - 1][2]
        ops = per_dst.get(q, [])
        if ops == [[prev, w]]:
            sg += 'R'
        elif ops == [[w], [prev]]:
            sg += 'C'
        elif ops == [[prev], [w]]:
            sg += 'K'
        else:
            sg += 'O'
    out['hist']['aq_strategy:' + (sg or '-')] = out['hist'].get('aq_strategy:' + (sg or '-'), 0) + 1
    req = 'aqops %s %s' % (sg or '-', ','.join('%d:%d:%d' % (names[q], names[w], names[qi]) for q, w, qi in triples))
    got = model.batch([req])[0]
    real = ';'.join('%d:%s' % (names[d], '+'.join(str(names[x]) for x in ss)) for d, ss in effq)
    out['trace_ops'] += 1
    if got != real:
        inv = {v: k for k, v in names.items()}
        try:
            shown = [[inv[int(o.split(':')[0])], [inv[int(x)] for x in o.split(':')[1].split('+')]]
                     for o in got.split(';') if o]
        except (ValueError, KeyError, IndexError):
            shown = got
        bad('add_to_queue_ops', {'pr': pr['id'], 'triples': triples, 'strategies': sg}, effq, shown)
    # ---- the conclusions of add_to_queue_spec on the real post-state (the bare remote after the push)
    ra, rb = after['refs'], before['refs']
    first = next((t for t in rec.get('trace', []) if t['op'] == 'merge' and t['ok'] and t.get('before')
                  and t['dst'] == triples[0][0]), None)
    c_refs = (first or {}).get('before') or {}      # the clone add_to_queue started from

    def anc(a, b):
        return bool(a) and bool(b) and world.is_ancestor(a, b)

    for i, (q, w, qi) in enumerate(triples):
        dest = pairs[i][0]
        what = {'pr': pr['id'], 'q': q, 'w': w, 'qint': qi}
        if ra.get(qi) is None or ra.get(q) is None or ra[qi] != ra[q]:
            bad('add_to_queue_spec (b) queue-integration branch = master queue', what,
                [ra.get(qi), ra.get(q)], 'equal and present')
            continue
        w_tip = c_refs.get(w) or rb.get(w) or ra.get(w)
        if not anc(w_tip, ra[qi]):
            bad('add_to_queue_spec (c) queue-integration branch contains its integration branch', what, False, True)
        if i and not anc(ra.get(triples[i - 1][2]), ra[qi]):
            bad('add_to_queue_spec (d) contains the queue-integration branch of the previous target',
                dict(what, prev=triples[i - 1][2]), False, True)
        if not anc(rb.get(dest) or c_refs.get(dest), ra[qi]):
            bad('add_to_queue_spec (e) contains its destination', dict(what, dest=dest), False, True)
        if q in c_refs and not anc(c_refs[q], ra[qi]):
            bad('add_to_queue_spec (e) contains the master queue as it was', what, False, True)
        ver = q[len('q/'):]
        for n in sorted(rb):
            if re.match(r'^q/w/\d+/%s/' % re.escape(ver), n) and n != qi and not anc(rb[n], ra[qi]):
                bad('add_to_queue_spec (e) contains the previous queue-integration branches of its version',
                    dict(what, older=n), False, True)
        out['trace_ops'] += 1


def _check_update_fragment(world, ev, before, rec, after, effw, model, out):
    """update_integration_branches of one pull request: the merges recorded on its w/<version>/<source> branches
    (temporary branches of robust_merge resolved, the w/<destination> branch of check_conflict left out) must be
    Gate.update_ops for the (w_i, dst_i) pairs of the pull request, one strategy per step; a job that ends in
    Conflict stopped inside one step: the steps before it are compared."""
    from . import tracecheck as tc
    if ev.get('e') not in ('job_pr', 'job_commit', 'drained'):
        return

    def bad(fn, inp, impl, mod):
        out['mismatch'].append({'function': fn, 'input': dict(inp, event=ev), 'impl': impl, 'model': mod})

    src = effw[0][0].split('/', 2)[2] if effw else None
    pr = _pr_of_job(ev, before, src) if (src or ev.get('e') == 'job_pr') else None
    if pr is None:
        if effw:
            bad('update_ops', {'ops': effw}, effw, 'no pull request explains these integration-branch merges')
        return
    if pr['state'] != 'OPEN' and not effw:
        return
    pairs = _expected_pairs(world, before, pr)
    wds = [(w, t) for t, w in pairs[1:]]
    if not effw and (not wds or pr['src'] not in before['refs']):
        return
    out['hist']['fragment:update_integration'] = out['hist'].get('fragment:update_integration', 0) + 1
    names = {pr['src']: 0}
    for w, d in wds:
        names.setdefault(w, len(names))
        names.setdefault(d, len(names))
    per_dst = {}
    for d, ss in effw:
        names.setdefault(d, len(names))
        per_dst.setdefault(d, []).append(ss)
        for x in ss:
            names.setdefault(x, len(names))
    # the strategy of each step, from the shape of the real operations (strategy_ops s w dst prev)
    sg, prev, complete = '', pr['src'], 0
    for w, d in wds:
        ops = per_dst.get(w, [])
        if ops == [[d, prev]]:
            sg += 'O'
        elif ops == [[prev, d]]:
            sg += 'R'
        elif ops == [[d], [prev]]:
            sg += 'C'
        elif ops == [[prev], [d]]:
            sg += 'K'
        else:
            break
        complete += 1
        prev = w
    conflict = rec.get('status') == 'Conflict'
    if conflict:
        # the conflicting step may have left a partial trace on its own branch; nothing runs after it
        done = [w for w, _ in wds[:complete]]
        later = [w for w, _ in wds[complete + 1:]]
        real_ops = [(d, ss) for d, ss in effw if d in done]
        if any(d in later for d, _ in effw):
            bad('update_ops', {'pr': pr['id'], 'pairs': wds}, effw, 'no merge after the conflicting step')
        wds_cmp = wds[:complete]
    else:
        real_ops, wds_cmp = effw, wds
        sg = sg + 'O' * (len(wds) - len(sg))
    out['hist']['ui_strategy:' + (sg or '-')] = out['hist'].get('ui_strategy:' + (sg or '-'), 0) + 1
    req = 'uiops %s %s %d' % (sg[:len(wds_cmp)] or '-',
                              ','.join('%d:%d' % (names[w], names[d]) for w, d in wds_cmp) or '-', names[pr['src']])
    got = model.batch([req])[0]
    real = ';'.join('%d:%s' % (names[d], '+'.join(str(names[x]) for x in ss)) for d, ss in real_ops)
    out['trace_ops'] += 1
    if got != real:
        inv = {v: k for k, v in names.items()}
        try:
            shown = [[inv[int(o.split(':')[0])], [inv[int(x)] for x in o.split(':')[1].split('+')]]
                     for o in got.split(';') if o]
        except (ValueError, KeyError, IndexError):
            shown = got
        bad('update_ops', {'pr': pr['id'], 'pairs': wds, 'strategies': sg, 'status': rec.get('status')},
            effw, shown)


def _check_skip_queue(world, ev, before, rec, after, eff, graph, model, out):
    """A pull-request job that ends in SuccessMessage with queues on merged directly: queueing.is_needed answered
    False.  Gate.is_needed and Gate.check_in_sync are evaluated on the real clone as it was just before the first
    destination merge (commit graph of the job's clone): the hypotheses of C03_skip_queue_direct_merge."""
    from . import tracecheck as tc
    first = next((t for t in rec.get('trace', []) if t['op'] == 'merge' and tc.is_dest(t['dst'])
                  and t.get('before')), None)
    if first is None or all(len(s) == 1 and s[0].startswith('q/w/') for _, s in eff):
        return
    pr = _pr_of_job(ev, before, eff[0][1][0])
    if pr is None:
        return
    local = first['before']
    pairs = _expected_pairs(world, before, pr)
    src, dst = pr['src'], pairs[0][0]
    wds = [(w, t) for t, w in pairs]            # zip(wbranches, dst_branches): the first one is (source, dst)
    names = {}
    for w, d in wds:
        names.setdefault(w, len(names))
        names.setdefault(d, len(names))
    refs = {n: local[n] for n in names if n in local}
    if any(s not in graph for s in refs.values()):
        # the job's clone is gone (a retried push re-clones): the same commits, read from the bare remote
        graph = {h: v[0] for h, v in world.graph().items()}
        if any(s not in graph for s in refs.values()):
            out['hist']['skip_queue:graph_unavailable'] = out['hist'].get('skip_queue:graph_unavailable', 0) + 1
            return
    order = tc.topo(graph, refs.values())
    st, idx = tc.enc_store(graph, order)
    aiq = any(n.startswith('q/w/%d/' % pr['id']) for n in list(before['refs']) + list(local))
    qn = any(n.startswith('q/w/') for n in before['refs'])
    flags = '1%d%d%d' % (1 if world.cfg['skip_queue'] else 0, 1 if aiq else 0, 1 if qn else 0)
    reqs = ['isneeded %s %s %s %d %d %s' % (st, tc.enc_refs(refs, names, idx), flags, names[src], names[dst],
                                           ','.join('%d:%d' % (names[w], names[d]) for w, d in wds)),
            'insync %s %s %d %s' % (st, tc.enc_refs(refs, names, idx), names[src],
                                    ','.join(str(names[w]) for w, _ in wds))]
    needed, insync = model.batch(reqs)
    out['trace_ops'] += 2
    out['hist']['skip_queue:direct_merge'] = out['hist'].get('skip_queue:direct_merge', 0) + 1
    what = {'event': ev, 'pr': pr['id'], 'pairs': wds, 'flags(use_queue,skip,already_in_queue,queued)': flags,
            'tips': {n: refs.get(n) for n in names}}
    if needed != '0':
        out['mismatch'].append({'function': 'is_needed (the queue was skipped: the model must answer False)',
                                'input': what, 'impl': False, 'model': needed})
    if insync != '1':
        out['mismatch'].append({'function': 'C03_skip_queue_direct_merge hypothesis (check_in_sync at the merge)',
                                'input': what, 'impl': 'direct merge', 'model': insync})


def _check_new_tips_unbuilt(world, ev, before, rec, after, out, seen_tips):
    """System clause of C06 (Gate: new_tips_are_unbuilt): a commit a job creates as the new tip of an integration
    branch did not exist before the job, so the host's build table as it was before the job has no entry for it.
    `Created` = not reachable from any branch of the remote before the job.  (The harness fixes commit dates, so
    re-creating a deleted integration branch from the same parents yields the same sha: a tip already seen in an
    earlier dump of this history is counted apart, not as a created commit.)"""
    from . import tracecheck as tc
    from .sysworld import _git
    moved = [(n, s) for n, s in after['refs'].items() if tc.is_integration(n) and before['refs'].get(n) != s]
    if not moved:
        return
    tips = sorted(set(before['refs'].values()))
    rc, outp = _git(world.url, 'rev-list', *tips, check=False) if tips else (0, '')
    old = set(outp.split()) if rc == 0 else None
    if old is None:
        return
    built = {}
    for k in before['builds']:
        sha, _, key = k.partition('|')
        built.setdefault(sha, []).append(key)
    for n, s in moved:
        if s in old:
            out['hist']['c06:w_tip_moved_to_existing_commit'] = out['hist'].get('c06:w_tip_moved_to_existing_commit', 0) + 1
            continue
        if s in seen_tips:
            out['hist']['c06:w_tip_recreated'] = out['hist'].get('c06:w_tip_recreated', 0) + 1
            continue
        out['hist']['c06:w_tip_created'] = out['hist'].get('c06:w_tip_created', 0) + 1
        if s in built:
            out['mismatch'].append({'function': 'C06_new_tips_are_unbuilt (a commit created by the job has no build entry)',
                                    'input': {'event': ev, 'branch': n, 'sha': s, 'keys': built[s]},
                                    'impl': 'entry in the build table before the job', 'model': 'no entry (NOTSTARTED)'})


def _check_fragment(world, ev, before, rec, after, eff, model, out):
    from . import tracecheck as tc
    dests = [d for d, _ in eff]
    if all(len(s) == 1 and s[0].startswith('q/w/') for _, s in eff):
        # merge_queues: one fast-forward per selected version onto a queue-integration branch of that version
        out['hist']['fragment:merge_queues'] = out['hist'].get('fragment:merge_queues', 0) + 1
        for d, s in eff:
            m = s[0].split('/')
            ver = tc.version_of(d)
            if d.startswith('hotfix/'):
                ok = m[3].startswith(ver + '.')
            else:
                ok = m[3] == ver
            if not ok or dests.count(d) != 1:
                out['mismatch'].append({'function': 'merge_queues_ops', 'input': {'event': ev, 'ops': eff},
                                        'impl': [d, s], 'model': 'one merge of q/w/<pr>/%s/... into %s' % (ver, d)})
        # hypotheses of the theorem on the real pre-state (queue commits contain their destination; ordered)
        refs = before['refs']
        pairs = tc.later_pairs(dests)
        sel = {d: s[0] for d, s in eff}
        for d, q in sel.items():
            if q in refs and d in refs and not world.is_ancestor(refs[d], refs[q]):
                out['mismatch'].append({'function': 'merge_queues hypothesis (queue commit contains destination)',
                                        'input': {'event': ev, 'dest': d, 'queue': q}, 'impl': False, 'model': True})
        for a, b in pairs:
            if sel[a] in refs and sel[b] in refs and not world.is_ancestor(refs[sel[a]], refs[sel[b]]):
                out['mismatch'].append({'function': 'merge_queues hypothesis (queue commits ordered)',
                                        'input': {'event': ev, 'a': sel[a], 'b': sel[b]}, 'impl': False, 'model': True})
        # upward closure: every later destination of a selected one is selected too
        for a, b in tc.later_pairs([n for n in refs if tc.is_dest(n)]):
            if a in sel and b not in sel:
                out['mismatch'].append({'function': 'merge_queues hypothesis (selection closed upwards)',
                                        'input': {'event': ev, 'a': a, 'b': b}, 'impl': False, 'model': True})
        return
    # merge_integration_branches of one pull request
    out['hist']['fragment:merge_integration'] = out['hist'].get('fragment:merge_integration', 0) + 1
    # commit event: the pull request is the one whose source is merged into the first destination
    pr = _pr_of_job(ev, before, eff[0][1][0])
    if pr is None:
        out['mismatch'].append({'function': 'merge_integration_ops', 'input': {'event': ev, 'ops': eff},
                                'impl': eff, 'model': 'no pull request explains these destination merges'})
        return
    pairs = _expected_pairs(world, before, pr)
    names = {}
    for t, w in pairs:
        names.setdefault(t, len(names))
        names.setdefault(w, len(names))
    for d, ss in eff:
        names.setdefault(d, len(names))
        for s in ss:
            names.setdefault(s, len(names))
    # infer the strategy of each chain step from the shape of the real operations
    sg, i = '', 1
    per_dst = {}
    for d, ss in eff:
        per_dst.setdefault(d, []).append(ss)
    for k in range(1, len(pairs)):
        t, w = pairs[k]
        prev = pairs[k - 1][0]
        ops = per_dst.get(t, [])
        if ops == [[prev, w]]:
            sg += 'O'
        elif ops == [[w, prev]]:
            sg += 'R'
        elif ops == [[w], [prev]]:
            sg += 'K'
        else:
            sg += 'C'
    out['hist']['strategy:' + (sg or '-')] = out['hist'].get('strategy:' + (sg or '-'), 0) + 1
    if world.cfg['use_queue'] and 'C' in sg:
        # with queues on a direct merge only happens when every merge can fast-forward (is_needed false):
        # hypothesis ff_strategy of theorem C03_direct_merge
        out['mismatch'].append({'function': 'C03_direct_merge hypothesis (fast-forwarding strategy)',
                                'input': {'event': ev, 'pr': pr['id'], 'strategies': sg}, 'impl': sg,
                                'model': 'O, R or K'})
    req = 'miops %s %s' % (sg or '-', ','.join('%d:%d' % (names[t], names[w]) for t, w in pairs))
    got = model.batch([req])[0]
    real = ';'.join('%d:%s' % (names[d], '+'.join(str(names[s]) for s in ss)) for d, ss in eff)
    out['trace_ops'] += 1
    if got != real:
        inv = {v: k for k, v in names.items()}
        out['mismatch'].append({'function': 'merge_integration_ops',
                                'input': {'event': ev, 'pr': pr['id'], 'pairs': pairs, 'strategies': sg},
                                'impl': eff, 'model': [[inv[int(o.split(':')[0])],
                                                        [inv[int(x)] for x in o.split(':')[1].split('+')]]
                                                       for o in got.split(';') if o]})


class _RecordingModel(core.Model):
    """Keeps a few (request, answer) pairs of every kind for the cross-evaluation inside Coq (lib/coqeval.py)."""

    def __init__(self, exe, per_kind=3):
        core.Model.__init__(self, exe)
        self.sample, self.per_kind, self.n = [], per_kind, {}

    def batch(self, lines, timeout=3600):
        res = core.Model.batch(self, lines, timeout)
        for req, ans in zip(lines, res):
            k = req.split(' ', 1)[0]
            if self.n.get(k, 0) < self.per_kind and len(req) < 6000:
                self.n[k] = self.n.get(k, 0) + 1
                self.sample.append((req, ans))
        return res


def _worker(args):
    seed, length, mode, monitor_names, exe, do_corr, cfg_override, max_prs, admin_jobs, replay_history, fault_spec = args[:11]
    qm_mod = args[11] if len(args) > 11 else 8
    from . import faults as faults_mod
    os.environ['PYTHONHASHSEED'] = '0'
    from . import histories, monitors
    model = _RecordingModel(exe) if exe and do_corr else None
    mons = [(n, getattr(monitors, n)) for n in monitor_names]
    out = {'seed': seed, 'jobs': 0, 'violations': [], 'mismatch': [], 'hist': {}, 'nontrivial': [], 'gates': [],
           'trace_ops': 0, 'history': None, 'error': None, 'wall': 0.0}
    events_so_far = []
    seen_tips = set()
    t0 = time.time()

    def on_job(world, ev, before, rec, after):
        out['jobs'] += 1
        st = rec.get('status')
        out['hist']['status:%s' % st] = out['hist'].get('status:%s' % st, 0) + 1
        moved = sorted(n for n in before['refs'] if monitors.is_dest(n) and n in after['refs']
                       and after['refs'][n] != before['refs'][n])
        if moved:
            mode_ = 'noqueue' if not world.cfg['use_queue'] else ('skip' if world.cfg['skip_queue'] else 'queue')
            out['nontrivial'].append('%s|%s|%s|%s' % (mode_, world.cfg['no_octopus'], ','.join(moved), st))
        try:
            from . import pipeline as _pl
            for g in _pl.gates(rec):
                if len(out['gates']) < 4000:
                    out['gates'].append(dict(g, event=ev, job_index=out['jobs'], status=st))
        except Exception:
            out['mismatch'].append({'function': 'gate-capture-crash', 'input': ev,
                                    'impl': traceback.format_exc()[-800:], 'model': None})
        for name, m in mons:
            try:
                for v in m(world, ev, before, rec, after):
                    out['violations'].append({'monitor': name, 'event': ev, 'detail': v,
                                              'job_index': out['jobs']})
            except Exception:
                out['mismatch'].append({'function': 'monitor-crash:' + name, 'input': ev,
                                        'impl': traceback.format_exc()[-800:], 'model': None})
        try:
            _check_new_tips_unbuilt(world, ev, before, rec, after, out, seen_tips)
        except Exception:
            out['mismatch'].append({'function': 'new-tips-check-crash', 'input': ev,
                                    'impl': traceback.format_exc()[-800:], 'model': None})
        seen_tips.update(before['refs'].values())
        seen_tips.update(after['refs'].values())
        if model is not None:
            try:
                _check_trace(world, ev, before, rec, after, model, out, only_pipeline=(do_corr == 'pipeline'))
            except Exception:
                out['mismatch'].append({'function': 'trace-check-crash', 'input': ev,
                                        'impl': traceback.format_exc()[-1200:], 'model': None})
    try:
        if replay_history is not None:
            histories.replay(replay_history, on_job=on_job, fault_for=faults_mod.build(replay_history.get('faults')))
            out['history'] = replay_history
        else:
            spec = dict(fault_spec, seed=seed) if fault_spec else None
            ff = faults_mod.build(spec)
            if seed % qm_mod == 1 and mode in ('queue', 'skip', None):
                h, _log = histories.queue_matrix_and_run(seed, on_job=on_job, mode=mode, cfg_override=cfg_override,
                                                         fault_for=ff)
            elif seed % 8 == 5:
                h, _log = histories.conflict_and_run(seed, on_job=on_job, mode=mode, cfg_override=cfg_override,
                                                     fault_for=ff)
            elif seed % 4 == 3 and admin_jobs:
                h, _log = histories.branch_jobs_and_run(seed, on_job=on_job, mode=mode, cfg_override=cfg_override,
                                                        fault_for=ff)
            elif seed % 8 == 4:
                h, _log = histories.backport_and_run(seed, on_job=on_job, mode=mode, cfg_override=cfg_override,
                                                     fault_for=ff)
            elif seed % 8 == 6:
                h, _log = histories.manual_w_and_run(seed, on_job=on_job, mode=mode, cfg_override=cfg_override,
                                                     fault_for=ff)
            elif seed % 2 == 1:
                h, _log = histories.lifecycle_and_run(seed, on_job=on_job, mode=mode, cfg_override=cfg_override,
                                                      fault_for=ff)
            else:
                h, _log = histories.generate_and_run(seed, length=length, mode=mode, on_job=on_job,
                                                     cfg_override=cfg_override, max_prs=max_prs,
                                                     admin_jobs=admin_jobs, fault_for=ff)
            h['faults'] = spec
            out['history'] = h
    except Exception:
        out['error'] = traceback.format_exc()[-2000:]
    out['wall'] = time.time() - t0
    out['xsample'] = model.sample if model is not None else []
    if not out['violations'] and not out['mismatch'] and not out['error'] and not out['gates']:
        out['history'] = {'cfg': out['history']['cfg'], 'n_events': len(out['history']['events'])} \
            if out['history'] else None
    return out


def run(ctx, seeds, length, monitor_names, mode=None, do_corr=True, cfg_override=None, max_prs=3,
        admin_jobs=True, replay_history=None, workers=16, what='', fault_spec=None, model_exe=None, qm_mod=8):
    """Run the histories; fill ctx (evaluations, violations, mismatches, samples, histogram).
    do_corr: True = every trace check (needs the git/flow binary), 'pipeline' = only the handler skeletons
    (Model/Pipeline.v; any binary that answers `pipe` requests, given as model_exe), False = monitors only."""
    exe = model_exe or (ctx.model.exe if ctx.model is not None else None)
    if isinstance(replay_history, list):        # several explicit histories, in parallel
        jobs = [(i, length, mode, monitor_names, exe, do_corr, cfg_override, max_prs, admin_jobs, h, None)
                for i, h in enumerate(replay_history)]
    elif replay_history is not None:
        jobs = [(0, length, mode, monitor_names, exe, do_corr, cfg_override, max_prs, admin_jobs, replay_history,
                 None)]
    else:
        jobs = [(s, length, mode if not isinstance(mode, (list, tuple)) else mode[i % len(mode)], monitor_names,
                 exe, do_corr, cfg_override, max_prs, admin_jobs, None, fault_spec, qm_mod) for i, s in enumerate(seeds)]
    mp = get_context('fork')
    with mp.Pool(min(workers, max(1, len(jobs)))) as pool:
        results = pool.map(_worker, jobs, chunksize=1)
    n_hist = 0
    for r in results:
        n_hist += 1
        ctx.evaluations += r['jobs']
        ctx.traces_validated += r['trace_ops']
        for k, v in r['hist'].items():
            ctx.count(k, v)
        for k in r['nontrivial']:
            ctx.seen_nontrivial(k)
        if r.get('xsample'):
            if not hasattr(ctx, 'xpairs'):
                ctx.xpairs = []
            if len(ctx.xpairs) < 4000:
                ctx.xpairs.extend(tuple(p) for p in r['xsample'])
        if r['error']:
            ctx.mismatch({'seed': r['seed']}, r['error'], None, 'history-harness-crash')
        for m in r['mismatch']:
            m['input'] = {'seed': r['seed'], 'history': r['history'], 'at': m['input']}
            ctx.mismatch(m['input'], m['impl'], m['model'], m['function'])
        for v in r['violations']:
            ctx.violation({'seed': r['seed'], 'history': r['history'], 'job_index': v['job_index'],
                           'event': v['event']}, 'property holds after the job', v['detail'],
                          '%s: %s' % (v['monitor'], v['detail'].get('what')),
                          key=core.canon({'monitor': v['monitor'], 'what': v['detail'].get('what'),
                                          'event': v['event'].get('e'), 'kind': v['event'].get('kind')}))
        if r['history'] and len(ctx.samples) < 3:
            ctx.sample({'seed': r['seed'], 'cfg': r['history'].get('cfg'), 'jobs': r['jobs'],
                        'events': r['history'].get('n_events', len(r['history'].get('events', [])))})
    ctx.count('histories', n_hist)
    return results
