"""Helpers to emit Coq source text (literals only)."""


def coq_str(s):
    """Coq string literal of an ASCII python str (fail-closed on non-ASCII / control chars)."""
    if not isinstance(s, str):
        raise ValueError('not a string: %r' % (s,))
    for ch in s:
        if ord(ch) > 126 or (ord(ch) < 32 and ch not in '\n\t'):
            raise ValueError('non printable / non ASCII character in %r' % s)
    return '"' + s.replace('"', '""') + '"'


def coq_list(items):
    items = list(items)
    return '[' + '; '.join(items) + ']'


def coq_bool(b):
    if not isinstance(b, bool):
        raise ValueError('not a bool: %r' % (b,))
    return 'true' if b else 'false'


def coq_nat(n):
    if not isinstance(n, int) or isinstance(n, bool) or n < 0 or n > 5000:
        raise ValueError('not a small nat: %r' % (n,))
    return str(n)


def coq_Z(n):
    if not isinstance(n, int) or isinstance(n, bool):
        raise ValueError('not an int: %r' % (n,))
    return '(%d)%%Z' % n


def coq_option(x, f):
    return 'None' if x is None else '(Some %s)' % f(x)
