"""Executable monitors of the history properties, evaluated on the real bare repository / mock host after
every Bert-E job.  Each returns a list of violation dicts (empty = the property held across this job)."""
import re

from .sysworld import ROBOT, ADMIN


def is_dest(n):
    return bool(re.match(r'^(development/\d+(\.\d+)?|stabilization/\d+\.\d+\.\d+|hotfix/\d+\.\d+\.\d+)$', n))


def is_owned(n):
    return n.startswith('w/') or n.startswith('q/') or n.startswith('tmp/')


def chain_pairs(refs):
    """(earlier, later) pairs of the forward-port order: stab x.y.z -> dev x.y -> next dev ... (dev x last in x)."""
    devs, stabs = [], []
    for n in refs:
        m = re.match(r'^development/(\d+)(?:\.(\d+))?$', n)
        if m:
            devs.append(((int(m.group(1)), 1 if m.group(2) is None else 0, int(m.group(2) or 0)), n))
        m = re.match(r'^stabilization/(\d+)\.(\d+)\.(\d+)$', n)
        if m:
            stabs.append((int(m.group(1)), int(m.group(2)), n))
    devs.sort()
    pairs = [(devs[i][1], devs[i + 1][1]) for i in range(len(devs) - 1)]
    names = {(k[0], k[2]): n for k, n in devs if k[1] == 0}
    for major, minor, n in stabs:
        if (major, minor) in names:
            pairs.append((n, names[(major, minor)]))
    return pairs


def incl_failures(world, refs):
    bad = []
    for a, b in chain_pairs(refs):
        if not world.is_ancestor(refs[a], refs[b]):
            bad.append((a, b))
    return bad


def mon_c01(world, ev, before, rec, after):
    """Forward-port inclusion: held before the job => holds after it."""
    if incl_failures(world, before['refs']):
        return []
    bad = incl_failures(world, after['refs'])
    return [{'what': 'inclusion lost', 'pairs': bad}] if bad else []


def mon_c08(world, ev, before, rec, after, third_party_refs=None):
    """Fast-forward only on destinations; nothing but w/ q/ tmp/ names is rewound, moved or deleted."""
    out = []
    b, a = before['refs'], after['refs']
    expected = dict(b)
    fault = rec.get('fault') or {}
    if third_party_refs is None and fault.get('mode') == 'third_party' and fault.get('fired'):
        third_party_refs = fault.get('result')
    if third_party_refs:
        expected.update(third_party_refs)      # state the third party left behind
    deleting = ev.get('e') == 'job_api' and ev.get('kind') == 'delete_branch'
    for n, sha in expected.items():
        if is_owned(n):
            continue
        if n not in a:
            if deleting and n == ev.get('args', {}).get('branch'):
                if sha not in after['tags'].values():
                    out.append({'what': 'destination deleted without archive tag', 'ref': n})
                continue
            out.append({'what': 'non-owned branch deleted', 'ref': n})
            continue
        if a[n] == sha:
            continue
        if is_dest(n):
            if not world.is_ancestor(sha, a[n]):
                out.append({'what': 'destination branch rewound (not a fast-forward)', 'ref': n})
        else:
            out.append({'what': 'non-owned branch moved', 'ref': n, 'from': sha, 'to': a[n]})
    for n in a:
        if n not in expected and not is_owned(n):
            creating = ev.get('e') == 'job_api' and ev.get('kind') == 'create_branch' \
                and n == ev.get('args', {}).get('branch')
            if not creating:
                out.append({'what': 'non-owned branch created', 'ref': n})
    for t in rec.get('trace', []):
        if t['op'] == 'forced':
            out.append({'what': 'forced git command', 'cmd': t['cmd']})
    return out


def bypassing_prs(world, pr_ids):
    """Merged PRs for which the build check was waived by an admin comment (not the author's own)."""
    res = []
    prs = {p['id']: p for p in world.prs()}
    for i in pr_ids:
        for c in world.comments(i):
            if 'bypass_build_status' in c['text'] and c['by'] == ADMIN and prs[i]['author'] != ADMIN:
                res.append(i)
                break
    return res


def mon_c03(world, ev, before, rec, after):
    """Queue mode: a destination only advances to a commit whose build was reported SUCCESSFUL."""
    cfg = world.cfg
    if not cfg['use_queue'] or not cfg['build_key']:
        return []
    if ev.get('e') == 'job_api' and ev.get('kind') in ('force_merge_queues', 'create_branch', 'delete_branch'):
        return []
    if 'bypass_build_status' in cfg.get('cmd_line_options', []):
        return []
    out = []
    moved = [n for n in before['refs'] if is_dest(n) and n in after['refs'] and after['refs'][n] != before['refs'][n]]
    if not moved:
        return []
    st_b = {p['id']: p['state'] for p in before['prs']}
    merged = [p['id'] for p in after['prs'] if p['author'] != ROBOT and p['state'] == 'MERGED'
              and st_b.get(p['id']) == 'OPEN']
    waived = bypassing_prs(world, merged)
    if merged and len(waived) == len(merged):
        return []
    for n in moved:
        sha = after['refs'][n]
        st = after['builds'].get('%s|%s' % (sha, cfg['build_key']), 'NOTSTARTED')
        if st != 'SUCCESSFUL':
            out.append({'what': 'destination advanced to a commit without a SUCCESSFUL build', 'ref': n,
                        'sha': sha, 'status': st, 'merged_prs': merged, 'waived': waived})
    return out



def mon_c06(world, ev, before, rec, after):
    """System-level clause of C06: a pull request passes the build gate (is queued or merged directly) only if
    every integration tip - the source branch for the first target, the w/ branch for each other one - had a
    SUCCESSFUL status under the build key when the job ran, unless the check was waived or no key is set."""
    cfg = world.cfg
    if not cfg['build_key'] or rec.get('status') not in ('Queued', 'SuccessMessage'):
        return []
    if ev.get('e') not in ('job_pr', 'job_commit') and not (ev.get('e') == 'job_api' and ev.get('kind') == 'eval_pr'):
        return []
    if 'bypass_build_status' in cfg.get('cmd_line_options', []):
        return []
    st_b = {p['id']: p for p in before['prs']}
    # the pull request this evaluation was about: the user PR whose state/queue changed
    cands = []
    for p in after['prs']:
        if p['author'] == ROBOT or p['id'] not in st_b:
            continue
        qb = [n for n in before['refs'] if n.startswith('q/w/%d/' % p['id'])]
        qa = [n for n in after['refs'] if n.startswith('q/w/%d/' % p['id'])]
        if (rec['status'] == 'Queued' and qa and not qb) or \
           (rec['status'] == 'SuccessMessage' and st_b[p['id']]['state'] == 'OPEN' and p['state'] == 'MERGED'):
            cands.append(p)
    out = []
    for p in cands:
        if bypassing_prs(world, [p['id']]):
            continue
        tips = [p['src']] + sorted(n for n in before['refs'] if n.startswith('w/') and n.endswith('/' + p['src']))
        for n in tips:
            sha = before['refs'].get(n)
            if sha is None:
                continue
            st = before['builds'].get('%s|%s' % (sha, cfg['build_key']), 'NOTSTARTED')
            if st != 'SUCCESSFUL':
                out.append({'what': 'pull request passed the build gate with a non-green integration tip',
                            'pr': p['id'], 'tip': n, 'sha': sha, 'status': st, 'outcome': rec['status']})
    return out


def mon_c13(world, ev, before, rec, after):
    """The worker survives every job and leaves the dispatcher's bookkeeping as it found it: process_task returned,
    the job is recorded as done with a status, no 'current job' marker is left (checked on fault-free jobs)."""
    if rec.get('fault'):
        return []
    out = []
    if rec.get('worker_died'):
        out.append({'what': 'an exception escaped process_task: the worker thread of the server ends, every request '
                            'accepted afterwards stays pending', 'exception': rec['worker_died']})
    elif rec.get('worker_clean') is False:
        out.append({'what': "the job left the dispatcher's bookkeeping changed ('current job' marker / done list)"})
    elif 'done' in rec and not rec['done']:
        out.append({'what': 'the job was processed but is not recorded as finished', 'status': rec.get('status')})
    return out


def mon_c20_queue_jobs(world, ev, before, rec, after):
    """C20, last clause, also when a git command of the job fails: queue rebuild and delete jobs remove only q/*
    branches - no other branch and no tag is created, moved or deleted by them."""
    if ev.get('e') != 'job_api' or ev.get('kind') not in ('delete_queues', 'rebuild_queues'):
        return []
    out = []
    b, a = before['refs'], after['refs']
    for n in sorted(set(b) | set(a)):
        if n.startswith('q/'):
            continue
        if b.get(n) != a.get(n):
            out.append({'what': 'a queue %s job changed a branch outside q/*' % ev['kind'].split('_')[0], 'ref': n,
                        'before': b.get(n), 'after': a.get(n), 'status': rec.get('status'),
                        'failed_git_command': rec.get('fault_command')})
    if before.get('tags') != after.get('tags'):
        out.append({'what': 'a queue %s job changed the tags' % ev['kind'].split('_')[0], 'status': rec.get('status')})
    return out
