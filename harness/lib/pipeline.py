"""Control-skeleton correspondence for the job handlers (coq/Model/Pipeline.v).

While a Bert-E job runs, every call site the model names is wrapped (module attributes of
bert_e.workflow.gitwaterflow and .queueing, a few methods, the dispatcher table): each call becomes a node
(callee, answer) of a call tree.  For every node that is one of the four modelled handlers the list of its direct
children - callee names and answers, in order - is sent to the extracted model, which runs the handler's program on
the same answers; both the sequence of callees and the exception the handler ends with must agree.

Nothing in /repo is changed: the wrappers are installed by sysworld.Recorder for the duration of one job.
"""
import re
import sys

PIPELINE_BINARY = ('Pipeline', 'Extract/PipelineExtract.v', ['ocaml/Pipeline_driver.ml', 'ocaml/Pipeline_main.ml'])

PROGRAMS = {'handle_pull_request': 'O', '_handle_pull_request': 'I', 'handle_commit': 'C',
            'handle_merge_queues': 'Q'}

# module-level call sites: (module key, attribute, answer kind)
GWF_SITES = [
    ('early_checks', 'ok'), ('send_greetings', 'ok'), ('handle_comments', 'ok'), ('check_dependencies', 'ok'),
    ('clone_git_repo', 'ok'), ('handle_declined_pull_request', 'ok'), ('check_commit_diff', 'ok'),
    ('build_branch_cascade', 'ok'), ('check_branch_compatibility', 'ok'), ('jira_checks', 'ok'),
    ('check_integration_branches', 'ok'), ('create_integration_branches', 'list'), ('check_in_sync', 'bool'),
    ('update_integration_branches', 'ok'), ('push', 'ok'), ('create_integration_pull_requests', 'children'),
    ('check_pull_request_skew', 'ok'), ('notify_integration_data', 'ok'), ('check_approvals', 'ok'),
    ('check_build_status', 'ok'), ('merge_integration_branches', 'ok'), ('notify_user', 'ok'),
    ('handle_parent_pull_request', 'ok'), ('_handle_pull_request', 'ok'), ('handle_pull_request', 'ok'),
    ('handle_commit', 'ok'),
]
QUEUEING_SITES = [
    ('already_in_queue', 'bool'), ('handle_merge_queues', 'ok'), ('build_queue_collection', 'ok'),
    ('is_needed', 'bool'), ('add_to_queue', 'ok'), ('merge_queues', 'ok'), ('close_queued_pull_request', 'ok'),
    ('notify_queue_build_failed', 'ok'), ('clone_git_repo', 'ok'), ('push', 'ok'),
]
COLLAPSE = {'Branch.reset'}      # a loop of calls on every integration branch counts as one step


def _capture_approvals(job):
    """What check_approvals is about to read, from the REAL job object (the input of Model/Approvals.v)."""
    s, pr = job.settings, job.pull_request
    names = ('bypass_author_approval', 'bypass_peer_approval', 'bypass_leader_approval')
    ab = job.author_bypass
    return {'required_peer_approvals': int(s.required_peer_approvals),
            'required_leader_approvals': int(s.required_leader_approvals),
            'need_author_approval': bool(s.need_author_approval), 'robot': str(s.robot), 'author': str(pr.author),
            'project_leaders': [str(x) for x in s.project_leaders],
            'participants': [str(x) for x in pr.get_participants()],
            'approvals': [str(x) for x in pr.get_approvals()],
            'change_requests': [str(x) for x in pr.get_change_requests()],
            'approve': bool(s.approve), 'unanimity': bool(s.unanimity),
            'sources': {b: [bool(s.get(b)), False, bool(ab.get(b, False))] for b in names}}


def _capture_build(job, wbranches):
    """What check_build_status is about to read: the status of every integration tip under the build key."""
    key = job.settings.build_key
    tips = []
    for w in wbranches:
        sha = w.get_latest_commit()
        tips.append({'branch': w.name, 'sha': sha,
                     'status': job.project_repo.get_build_status(sha, key) if key else None})
    return {'key': key or '', 'bypass_settings': bool(job.settings.get('bypass_build_status')),
            'bypass_author': bool(job.author_bypass.get('bypass_build_status', False)), 'tips': tips,
            # who could have switched the option on: the comments of the pull request and the admins
            'comments': [(str(c.author), str(c.text)) for c in job.pull_request.comments],
            'admins': [str(a) for a in job.settings.admins], 'author': str(job.pull_request.author)}


GATE_CAPTURE = {
    'check_approvals': lambda args, kw: _capture_approvals(args[0]),
    'check_build_status': lambda args, kw: _capture_build(args[0], args[1]),
}


class Stages:
    def __init__(self):
        self.stack = []
        self.roots = []

    def reset(self):
        self.stack, self.roots = [], []


def _classify(exc, messages):
    if isinstance(exc, messages.Conflict):
        name = 'Conflict'
    elif isinstance(exc, messages.IncoherentQueues):
        name = 'IncoherentQueues'
    else:
        name = type(exc).__name__
    if isinstance(exc, messages.TemplateException):
        kind = 'T'
    elif isinstance(exc, messages.SilentException):
        kind = 'S'
    elif isinstance(exc, messages.InternalException):
        kind = 'I'
    else:
        kind = 'O'
    return 'R%s:%s' % (kind, name)


def install(patch, world):
    """patch(obj, name, wrapper_factory) installs and remembers how to undo.  Returns the Stages object."""
    import bert_e.workflow.gitwaterflow as gwf
    from bert_e.workflow.gitwaterflow import queueing, branches
    from bert_e import exceptions as messages
    from bert_e.bert_e import BertE
    import bert_e.lib.git as lg

    st = world.stages = getattr(world, 'stages', None) or Stages()

    def enter(name, cfg=None):
        parent = st.stack[-1] if st.stack else None
        if parent is None and name not in PROGRAMS:
            return None
        node = {'name': name, 'children': [], 'ans': None, 'cfg': cfg}
        if parent is not None and parent['name'] in PROGRAMS:
            parent['children'].append(node)
        if name in PROGRAMS:
            st.roots.append(node)
        st.stack.append(node)
        return node

    def leave(node):
        if node is not None:
            assert st.stack and st.stack[-1] is node
            st.stack.pop()

    def synthetic(name, ans):
        parent = st.stack[-1] if st.stack else None
        if parent is not None and parent['name'] in PROGRAMS:
            parent['children'].append({'name': name, 'children': [], 'ans': ans, 'cfg': None})

    def cfg_of(name, args):
        job = args[0] if args else None
        try:
            if name == '_handle_pull_request':
                return {'use_queue': bool(job.settings.use_queue),
                        'declined': job.pull_request.status == 'DECLINED', 'by_robot': False}
            if name == 'handle_pull_request':
                return {'use_queue': bool(job.settings.use_queue), 'declined': False,
                        'by_robot': job.pull_request.author == job.settings.robot}
            if name == 'handle_commit':
                return {'use_queue': bool(job.settings.use_queue), 'declined': False, 'by_robot': False}
        except Exception:
            pass
        return {'use_queue': bool(world.cfg.get('use_queue')), 'declined': False, 'by_robot': False}

    def site(name, kind):
        def factory(orig):
            def wrapper(*args, **kw):
                if name.startswith('Branch.') and 'git_host' in sys._getframe(1).f_code.co_filename:
                    return orig(*args, **kw)          # the mock host derives MERGED from the repository
                node = enter(name, cfg_of(name, args) if name in PROGRAMS else None)
                if node is None:
                    return orig(*args, **kw)
                if name in GATE_CAPTURE and len(st.stack) >= 2 and st.stack[-2]['name'] == '_handle_pull_request':
                    try:
                        node['gate'] = GATE_CAPTURE[name](args, kw)
                    except Exception as exc:
                        node['gate'] = {'capture_error': '%s: %s' % (type(exc).__name__, exc)}
                after = None
                try:
                    res = orig(*args, **kw)
                    if kind == 'list':
                        res = list(res)
                    if kind in ('bool',):
                        node['ans'] = 'T' if res else 'F'
                    elif kind == 'children':
                        node['ans'] = 'T' if res else 'F'
                        wbranches = args[1] if len(args) > 1 else kw.get('wbranches', [])
                        newly = any(getattr(w, 'newly_created', False) for w in wbranches) or \
                            any(getattr(c, 'newly_created', False) for c in res)
                        after = ('newly_created?', 'T' if newly else 'F')
                    elif kind == 'selection':
                        node['ans'] = 'K'
                        q = args[1] if len(args) > 1 else kw.get('queue_collection')
                        try:
                            after = ('mergeable?', 'N%d:%d' % (len(q.mergeable_prs), 1 if q.failed_prs else 0))
                        except Exception as exc:           # what the handler itself is about to meet
                            after = ('mergeable?', _classify(exc, messages))
                    else:
                        node['ans'] = 'K'
                    return res
                except BaseException as exc:
                    node['ans'] = _classify(exc, messages)
                    raise
                finally:
                    leave(node)
                    if after is not None:
                        synthetic(*after)
            wrapper.__wrapped__ = orig
            return wrapper
        return factory

    for name, kind in GWF_SITES:
        patch(gwf, name, site(name, kind))
    for name, kind in QUEUEING_SITES:
        patch(queueing, name, site(name, kind))
    patch(branches.BranchCascade, 'validate', site('BranchCascade.validate', 'ok'))
    patch(branches.BranchCascade, 'build', site('BranchCascade.build', 'ok'))
    patch(branches.QueueCollection, 'validate', site('QueueCollection.validate', 'ok'))
    patch(branches.QueueCollection, 'delete', site('QueueCollection.delete', 'ok'))
    patch(BertE, 'add_merged_pr', site('BertE.add_merged_pr', 'ok'))
    patch(BertE, 'update_queue_status', site('BertE.update_queue_status', 'selection'))
    patch(lg.Branch, 'includes_commit', site('Branch.includes_commit', 'bool'))
    patch(lg.Branch, 'exists', site('Branch.exists', 'bool'))
    patch(lg.Branch, 'reset', site('Branch.reset', 'ok'))

    # handle_commit: the two reads its dispatch depends on
    def w_branches_of_commit(orig):
        def wrapper(self_, commit, *a, **kw):
            res = orig(self_, commit, *a, **kw)
            parent = st.stack[-1] if st.stack else None
            if parent is not None and parent['name'] == 'handle_commit':
                res = list(res)
                try:
                    kinds = [gwf.branch_factory(self_, b) for b in res]
                    ans = 'N%d:%d' % (len(kinds), 1 if any(isinstance(b, gwf.QueueBranch) for b in kinds) else 0)
                except Exception as exc:
                    ans = _classify(exc, messages)
                synthetic('branches_of_commit?', ans)
            return res
        return wrapper
    patch(lg.Repository, 'get_branches_from_commit', w_branches_of_commit)

    def w_get_prs(orig):
        def wrapper(self_, *a, **kw):
            parent = st.stack[-1] if st.stack else None
            if parent is not None and parent['name'] == 'handle_commit':
                res = list(orig(self_, *a, **kw))
                synthetic('get_pull_requests?', 'T' if res else 'F')
                return res
            return orig(self_, *a, **kw)
        return wrapper
    patch(world.mock.Repository, 'get_pull_requests', w_get_prs)

    # the dispatcher table holds the original function objects
    originals = {}
    for name in ('handle_pull_request', 'handle_commit'):
        w = getattr(gwf, name)
        originals[getattr(w, '__wrapped__', None)] = w
    w = getattr(queueing, 'handle_merge_queues')
    originals[getattr(w, '__wrapped__', None)] = w
    for m in BertE.__callbacks__.maps:
        for key, cb in list(m.items()):
            if cb in originals:
                patch(_MapItem(m, key), 'value', lambda orig, cb=cb: originals[cb])
    return st


class _MapItem:
    """Lets the generic patch/undo machinery treat one dictionary entry as an attribute."""

    def __init__(self, mapping, key):
        object.__setattr__(self, '_m', mapping)
        object.__setattr__(self, '_k', key)

    @property
    def value(self):
        return self._m[self._k]

    def __setattr__(self, name, val):
        if name == 'value':
            self._m[self._k] = val
        else:
            object.__setattr__(self, name, val)


# ---------------------------------------------------------------------------------------- comparison

def _children(node):
    out = []
    for c in node['children']:
        if out and c['name'] in COLLAPSE and out[-1][0] == c['name'] and out[-1][1] == 'K':
            out[-1] = (c['name'], c['ans'])
            continue
        out.append((c['name'], c['ans']))
    return out


def request(node):
    cfg = node.get('cfg') or {}
    flags = '%d%d%d' % (1 if cfg.get('use_queue') else 0, 1 if cfg.get('declined') else 0,
                        1 if cfg.get('by_robot') else 0)
    ch = _children(node)
    answers = ';'.join(re.sub(r'[^A-Za-z0-9_:]', '_', a or 'X') for _, a in ch) or '-'
    return 'pipe %s %s %s' % (PROGRAMS[node['name']], flags, answers)


def expected(node):
    ch = _children(node)
    ans = node['ans']
    if ans is None:
        out = '?'
    elif ans.startswith('R'):
        out = 'R:' + ans.split(':', 1)[1]
    else:
        out = 'RET'
    return ','.join(n for n, _ in ch) + '|' + out


def check(rec, ev, model, out):
    """Compare every handler node of one job with the model.  Appends to out['mismatch'], counts."""
    roots = rec.get('stages') or []
    nodes = [n for n in roots if n['name'] in PROGRAMS and n['ans'] is not None]
    if not nodes:
        return
    reqs = [request(n) for n in nodes]
    answers = model.batch(reqs)
    for n, req, got in zip(nodes, reqs, answers):
        exp = expected(n)
        out['trace_ops'] += 1
        key = 'pipeline:%s:%s' % (n['name'], exp.split('|')[1])
        out['hist'][key] = out['hist'].get(key, 0) + 1
        if got != exp:
            out['mismatch'].append({'function': 'Pipeline.run_handler (%s)' % n['name'],
                                    'input': {'event': ev, 'request': req, 'cfg': n.get('cfg')},
                                    'impl': exp, 'model': got})


def gates(rec):
    """[(stage name, captured inputs, answer)] of the gates of the pull-request evaluations of one job."""
    res = []
    for n in rec.get('stages') or []:
        if n['name'] != '_handle_pull_request':
            continue
        for c in n['children']:
            if 'gate' in c:
                res.append({'stage': c['name'], 'input': c['gate'], 'ans': c['ans']})
    return res


def tie(ctx, n, offset=700, monitors=(), length=14, **kw):
    """Skeleton correspondence for a property whose own runner does not go through sysrun's trace check:
    n seeded system histories (every family, every mode), every handler node of every job against the model."""
    from . import sysrun
    m = getattr(ctx, 'extra_models', {}).get('Pipeline')
    exe = m.exe if m else (ctx.model.exe if ctx.model is not None else None)
    if exe is None:
        ctx.mismatch('pipeline-binary', 'not built', None, 'Pipeline.run_handler')
        return []
    seeds = [ctx.seed * 100000 + offset + i for i in range(n)]
    ctx.count('pipeline_tie_histories', n)
    return sysrun.run(ctx, seeds, length, list(monitors), do_corr='pipeline', model_exe=exe, **kw)


TIE_RULE = ('; handler skeletons (Model/Pipeline.v): %d seeded system histories, every handler node of every job '
            '(callee sequence, answers, final exception) against the extracted run_handler')


def flat(roots):
    """The recorded trees as JSON-able data (for replay files)."""
    return [{'name': n['name'], 'cfg': n['cfg'], 'ans': n['ans'], 'children': _children(n)} for n in roots]
