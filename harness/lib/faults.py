"""Fault / interference policies for system histories.  A policy is built from a JSON-able spec so that a
history with faults can be replayed exactly: {'policy': 'third_party', 'seed': n}."""
import random


def third_party(seed):
    """One concurrent third-party action immediately before one of the job's pushes (C08)."""
    counter = [0]

    def fault_for(world, ev, before):
        counter[0] += 1
        r = random.Random(seed * 1000003 + counter[0])
        kind = r.choice(['new_branch', 'push_source', 'force_source', 'new_branch'])
        k = r.choice([0, 0, 1, 1, 2, 3])
        tag = '%d_%d' % (seed, counter[0])

        def action(w):
            refs = w.refs()
            srcs = sorted(p['src'] for p in w.prs() if p['author'] != 'bert-e' and p['src'] in refs)
            dests = sorted(n for n in refs if n.startswith('development/'))
            if kind == 'new_branch' or not srcs:
                # any name a colleague may pick - including ones that merely look like the robot's namespaces
                name = r.choice(['other/tp', 'other/tp', 'qa/tp', 'quarantine/tp', 'wip/tp', 'tmpfiles/tp',
                                 'q-tp', 'w-tp', 'queue/tp', 'user/tp']) + tag
                w.apply({'e': 'new_branch', 'branch': name, 'from': r.choice(dests), 'label': 'tp' + tag})
                return {name: w.refs().get(name)}
            src = r.choice(srcs)
            if kind == 'push_source':
                w.apply({'e': 'push', 'branch': src, 'label': 'tp' + tag})
            else:
                w.apply({'e': 'amend', 'branch': src, 'label': 'tp' + tag})
            return {src: w.refs().get(src)}
        return {'mode': 'third_party', 'push_index': k, 'kind': kind, 'action': action}
    return fault_for


POLICIES = {'third_party': third_party}


def build(spec):
    if not spec:
        return None
    return POLICIES[spec['policy']](spec['seed'])
