"""Correspondence between the operations recorded on the real system (sysworld.Recorder) and the git/flow
model (coq/Model/Git.v, Flow.v): every real `git merge` and every real push is replayed on the extracted model
over the same commit graph (up to the isomorphism sha <-> creation index), and the merges that write
destination branches are compared with the operation list the model fragment prescribes."""
import re

from .monitors import is_dest


def topo(graph, roots):
    """Ancestor closure of roots inside graph, parents before children (deterministic)."""
    seen, order = set(), []
    stack = [(r, False) for r in sorted(set(roots)) if r in graph]
    while stack:
        n, done = stack.pop()
        if done:
            order.append(n)
            continue
        if n in seen:
            continue
        seen.add(n)
        stack.append((n, True))
        for p in reversed(graph.get(n, [])):
            if p not in seen and p in graph:
                stack.append((p, False))
    return order


def enc_store(graph, order):
    idx = {s: i for i, s in enumerate(order)}
    if not order:
        return '-', idx
    return ';'.join(','.join(str(idx[p]) for p in graph[s] if p in idx) for s in order), idx


def enc_refs(refs, names, idx):
    items = ['%d:%d' % (names[n], idx[s]) for n, s in sorted(refs.items()) if s in idx and n in names]
    return ','.join(items) if items else '-'


def merge_cases(rec, graph):
    """[(request line, expected answer, description)] for every recorded merge with known before/after refs."""
    out = []
    for t in rec.get('trace', []):
        if t['op'] != 'merge' or not t.get('before') or not t.get('after'):
            continue
        b, a = t['before'], t['after']
        if t['dst'] not in b or any(s not in b for s in t['srcs']):
            continue
        head, srcs = b[t['dst']], [b[s] for s in t['srcs']]
        order = topo(graph, [head] + srcs)
        if head not in order or any(s not in order for s in srcs):
            continue
        st, idx = enc_store(graph, order)
        req = 'merge %s %d %s' % (st, idx[head], ','.join(str(idx[s]) for s in srcs))
        res = a.get(t['dst'])
        if not t['ok']:
            exp = 'CONFLICT'
        elif res == head:
            exp = 'U'
        elif res in idx:
            exp = 'F %d' % idx[res]
        elif res in graph and all(p in idx for p in graph[res]):
            exp = 'M ' + ','.join(str(idx[p]) for p in graph[res])
        else:
            exp = 'UNKNOWN'
        out.append((req, exp, {'dst': t['dst'], 'srcs': t['srcs'], 'ok': t['ok']}))
    return out


def merge_agrees(exp, got):
    if exp == 'CONFLICT':      # a conflict can only arise when a true merge commit was needed
        return got.startswith('M ')
    if exp == 'UNKNOWN':
        return True
    return exp == got


def push_cases(rec, graph):
    """[(request, expected, description)] for every recorded push_all / named push."""
    out = []
    trace = {t.get('opi'): t for t in rec.get('trace', []) if t['op'] in ('push', 'push_all')}
    for op in rec.get('ops', []):
        if op['kind'] not in ('push', 'push_all') or 'remote_before' not in op or op.get('rejected'):
            continue
        t = trace.get(op['i'])
        if not t or t.get('local') is None:
            continue
        local, rb, ra = t['local'], op['remote_before'], op.get('remote_after', {})
        shas = set(local.values()) | set(rb.values()) | set(ra.values())
        if any(s not in graph for s in shas):
            continue
        order = topo(graph, shas)
        st, idx = enc_store(graph, order)
        names = {n: i for i, n in enumerate(sorted(set(local) | set(rb) | set(ra)))}
        if op['kind'] == 'push_all':
            if t.get('uses_prune'):
                out.append(('pushall - - - -', 'USES --prune (deletes every remote branch absent locally)',
                            {'kind': 'push_all', 'detail': t.get('cmd')}))
                continue
            deleted = [names[n] for n in t.get('deleted', []) if n in names]
            if len(deleted) != len(t.get('deleted', [])):
                continue
            req = 'pushall %s %s %s %s' % (st, enc_refs(rb, names, idx), enc_refs(local, names, idx),
                                           ','.join(str(d) for d in deleted) or '-')
            exp = ('R ' + enc_refs(ra, names, idx)) if op.get('ok') else 'REJECT'
        else:
            pushed = [n.lstrip(':') for n in t['names']]
            if any(n.startswith(':') for n in t['names']) or any(n not in names for n in pushed):
                continue
            req = 'pushnames %s %s %s %s' % (st, enc_refs(rb, names, idx), enc_refs(local, names, idx),
                                             ','.join(str(names[n]) for n in pushed))
            exp = 'R ' + enc_refs(ra, names, idx)
        out.append((req, exp, {'kind': op['kind'], 'detail': op['detail']}))
    return out


def shas_of(rec):
    s = set()
    for t in rec.get('trace', []):
        for k in ('before', 'after', 'local'):
            if t.get(k):
                s.update(t[k].values())
    for op in rec.get('ops', []):
        for k in ('remote_before', 'remote_after'):
            if op.get(k):
                s.update(op[k].values())
    return s


def is_master_queue(name):
    """q/<version>: the master queue branch of a destination (not a q/w/... queue-integration branch)."""
    return re.match(r'^q/\d+(\.\d+)*$', name) is not None


def is_integration(name):
    """w/<version>/<source>: an integration branch - not the temporary w/<destination name> of check_conflict."""
    return name.startswith('w/') and name.count('/') >= 2 and not is_dest(name[2:])


# job statuses that are only reached after update_integration_branches ran to its end
AFTER_UPDATE = ('Queued', 'SuccessMessage', 'BuildNotStarted', 'BuildInProgress', 'BuildFailed', 'ApprovalRequired')


def effective_ops(rec, pred):
    """Successful merges that end up in a branch selected by `pred`, with the temporary branches of
    robust_merge (tmp/octopus/<dst>, tmp/normal/<dst>) resolved to the merges made on them."""
    eff, tmp = [], {}
    for t in rec.get('trace', []):
        if t['op'] == 'create' and t['name'].startswith('tmp/'):
            tmp[t['name']] = []
        elif t['op'] == 'merge' and t['ok']:
            if t['dst'].startswith('tmp/'):
                tmp.setdefault(t['dst'], []).append(list(t['srcs']))
            elif pred(t['dst']):
                if len(t['srcs']) == 1 and t['srcs'][0].startswith('tmp/'):
                    for srcs in tmp.get(t['srcs'][0], []):
                        eff.append((t['dst'], srcs))
                else:
                    eff.append((t['dst'], list(t['srcs'])))
    return eff


def effective_dest_ops(rec):
    """Successful merges that end up in a destination branch (see effective_ops)."""
    return effective_ops(rec, is_dest)


def other_dest_writes(rec):
    """Operations other than merges that (re)define a destination branch in the local clone."""
    out = []
    for t in rec.get('trace', []):
        if t['op'] == 'create' and is_dest(t['name']):
            out.append(t)
        if t['op'] == 'remove' and is_dest(t['name']):
            out.append(t)
    return out


def version_of(dest):
    return dest.split('/', 1)[1]


def later_pairs(names):
    """The forward-port order on destination names as (earlier, later) pairs - every pair, not only consecutive
    ones: stab x.y.z < dev x.y and everything after it; dev a < dev b when (major, minor-or-inf) increases."""
    def key(n):
        m = re.match(r'^development/(\d+)(?:\.(\d+))?$', n)
        if m:
            return (int(m.group(1)), float('inf') if m.group(2) is None else int(m.group(2)), 1)
        m = re.match(r'^stabilization/(\d+)\.(\d+)\.(\d+)$', n)
        if m:
            return (int(m.group(1)), int(m.group(2)), 0)
        return None
    ks = {n: key(n) for n in names if key(n)}
    pairs = []
    for a, ka in ks.items():
        for b, kb in ks.items():
            if kb[2] != 1 or a == b:
                continue
            if ka[2] == 1 and ka[:2] < kb[:2]:
                pairs.append((a, b))
            if ka[2] == 0 and ka[:2] <= kb[:2]:
                pairs.append((a, b))
    return pairs
