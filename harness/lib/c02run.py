"""C02 runner: fault enumeration around every Bert-E job of a system history.

For each job J reached in state S (sysworld.World):
  probe      snapshot S; run J without fault; record its remote-mutating operations (the publication list of
             coq/Model/Publish.v), the final refs and the content (tree ids) of the destination branches D_ok
  shape      the publication list must have the shape the theorems are stated for (Spec.shape_ok)
  placements crash before / after every operation, every single ref of every push refused (quick tier: a seeded
             sample); for each: restore S, run J with the fault on the long-lived instance, then
               CORR      real remote refs == extracted `publish` on the recorded list, same fault
               monitor   AllOrNone of every pull request open before J + forward-port inclusion (git merge-base),
                         cross-checked with the extracted Spec.state_ok_b on the same graph
               recovery  a fresh Bert-E gets the same event; on QueueOutOfOrder / IncoherentQueues the documented
                         reset (rebuild_queues, drain, re-deliver); destination trees must equal D_ok - or the
                         uninterrupted run followed by the same re-delivery / the same reset (an evaluation is
                         not idempotent on destinations; the reset rebuilds the queues from scratch); AllOrNone
                         and inclusion are checked again after the recovery.  One recovery per distinct
                         interrupted world (crash after i == crash before i+1).
             a refused ref is real: an `update` hook in the bare repository, installed right before the operation
  finally    restore S (the caller then runs J for real and the history goes on)
Every QueueCollection.validate call made by any of these runs is replayed on the extracted `validate`.
"""
import os
import random
import time
import traceback
from multiprocessing import get_context

from . import core, mon_c02 as M
from .monitors import chain_pairs, is_dest

OUT_OF_ORDER = ('QueueOutOfOrder', 'IncoherentQueues')


def job_kind(ev):
    return ev['e'] + (':' + ev['kind'] if ev.get('e') == 'job_api' else '')


def fault_label(fault, ops):
    """(fault mode [+ class of the refused ref], kind of the operation it is placed on)"""
    mode = fault['mode']
    if mode == 'reject':
        mode = 'reject:' + M.name_class(fault['ref'])
    at = fault.get('at', 0)
    opk = M.op_kind(ops[at]) if at < len(ops) else 'none'
    return mode, opk


def placements(rec):
    """Every fault of the quantifier for this job, from its fault-free recording."""
    ops = rec['ops']
    trace = {t.get('opi'): t for t in rec.get('trace', []) if t['op'] in ('push', 'push_all')}
    res = []
    for op in ops:
        i = op['i']
        res.append({'mode': 'crash_before', 'at': i})
        res.append({'mode': 'crash_after', 'at': i})
        # a ref can only be refused when git has to update it (an up-to-date ref is not sent)
        if op['kind'] == 'push':
            t = trace.get(i) or {}
            local, rb = t.get('local') or {}, op.get('remote_before') or {}
            for n in op['detail']:
                if n.startswith(':'):
                    if n[1:] in rb:
                        res.append({'mode': 'reject', 'at': i, 'ref': n[1:]})
                elif n in local and rb.get(n) != local[n]:
                    res.append({'mode': 'reject', 'at': i, 'ref': n})
        elif op['kind'] == 'push_all':
            t = trace.get(i) or {}
            local, rb = t.get('local') or {}, op.get('remote_before') or {}
            for n in sorted(local):
                if rb.get(n) != local[n]:
                    res.append({'mode': 'reject', 'at': i, 'ref': n})
            # the other way a server refuses a ref: somebody really moved it since the clone.  Done on the last
            # branch of the cascade only (a commit there cannot break the inclusion the job starts from).
            devs = sorted((n for n in rb if n.startswith('development/')), key=_dev_order)
            if devs and devs[-1] in local and rb.get(devs[-1]) != local[devs[-1]]:
                res.append({'mode': 'concurrent', 'at': i, 'ref': devs[-1]})
            for n in sorted(t.get('deleted') or []):
                res.append({'mode': 'reject', 'at': i, 'ref': n})
    return res


def _dev_order(n):
    v = n.split('/', 1)[1].split('.')
    return (int(v[0]), 10 ** 6 if len(v) == 1 else int(v[1]))


HOOK = """#!/bin/sh
# C02 harness: the server refuses to update this one branch (branch protection / concurrent update)
if [ "$1" = "refs/heads/%s" ]; then
  echo "refused by the C02 harness" >&2
  exit 1
fi
exit 0
"""


def hook_path(world):
    return os.path.join(world.url, 'hooks', 'update')


def install_reject_hook(world, ref):
    os.makedirs(os.path.dirname(hook_path(world)), exist_ok=True)
    with open(hook_path(world), 'w') as f:
        f.write(HOOK % ref)
    os.chmod(hook_path(world), 0o755)
    return {}


def remove_reject_hook(world):
    try:
        os.remove(hook_path(world))
    except FileNotFoundError:
        pass


def recorder_fault(fault, ops):
    """The fault in the vocabulary of sysworld.Recorder.  A refused ref is made real: an `update` hook that
    rejects that one ref is installed in the bare repository immediately before operation `at` (through the
    Recorder's third-party slot), so that git itself decides what a named / an atomic push does with it."""
    if fault['mode'] not in ('reject', 'concurrent'):
        return dict(fault)
    k = sum(1 for o in ops[:fault['at']] if o['kind'] in ('push', 'push_all', 'rawpush'))
    ref = fault['ref']
    if fault['mode'] == 'concurrent':
        # a third party pushes a commit on that branch immediately before the operation: git refuses the ref as a
        # non-fast-forward by itself
        return {'mode': 'third_party', 'push_index': k, 'kind': 'concurrent-update',
                'action': lambda w: w.apply({'e': 'push', 'branch': ref, 'label': 'concurrent_%d' % fault['at']})}
    return {'mode': 'third_party', 'push_index': k, 'kind': 'reject-hook',
            'action': lambda w: install_reject_hook(w, ref)}


def sample_placements(allp, ops, rng, limit):
    """Quick tier: at most `limit` placements, the rare decisive ones first (a refused destination of the atomic
    push, a refused ref of a multi-ref named push, crashes next to pushes)."""
    if limit is None or len(allp) <= limit:
        return list(allp)

    def cls(f):
        op = ops[f['at']]
        if f['mode'] in ('reject', 'concurrent') and op['kind'] == 'push_all' and is_dest(f['ref']):
            return 0
        if f['mode'] == 'reject' and op['kind'] == 'push' and len(op['detail']) > 1:
            return 1
        if op['kind'] in ('push', 'push_all'):
            return 2
        return 3
    groups = {0: [], 1: [], 2: [], 3: []}
    for f in allp:
        groups[cls(f)].append(f)
    for g in groups.values():
        rng.shuffle(g)
    chosen = groups[0][:2] + groups[1][:2]
    rest = groups[0][2:] + groups[1][2:] + groups[2] + groups[3]
    quota = limit - len(chosen)
    pick2 = groups[2][:max(1, quota // 2)]
    chosen += pick2
    rest = [f for f in rest if f not in pick2]
    rng.shuffle(rest)
    chosen += rest[:max(0, limit - len(chosen))]
    return chosen[:limit]


class ValidateTap:
    """Records every QueueCollection.validate call (collection, merge paths, commit graph, outcome)."""

    def __init__(self, world):
        self.world = world
        self.records = []
        self.saved = None

    def install(self):
        from bert_e.workflow.gitwaterflow import branches as br
        from . import sysworld
        tap = self
        orig = br.QueueCollection.validate
        self.saved = (br.QueueCollection, orig)

        def validate(self_):
            rec = None
            try:
                rec = tap.capture(self_, br, sysworld)
            except Exception:
                rec = {'error': traceback.format_exc()[-600:]}
            try:
                orig(self_)
                if rec is not None:
                    rec['result'] = 'OK'
            except br.errors.IncoherentQueues as err:
                if rec is not None:
                    rec['result'] = tap.error_names(br.errors, str(err))
                raise
            finally:
                if rec is not None:
                    tap.records.append(rec)
        br.QueueCollection.validate = validate

    @staticmethod
    def error_names(errors, msg):
        """IncoherentQueues only keeps the rendered list ' - [code] label': map the codes back to classes."""
        import re
        names = ('MasterQueueMissing', 'MasterQueueLateVsDev', 'MasterQueueNotInSync', 'MasterQueueLateVsInt',
                 'MasterQueueYoungerThanInt', 'MasterQueueDiverged', 'QueueInclusionIssue',
                 'QueueInconsistentPullRequestsOrder')
        by_code = {}
        for n in names:
            by_code.setdefault(str(getattr(errors, n).code), []).append(n)
        out = []
        for code in re.findall(r'^ - \[([A-Za-z0-9]+)\]', msg, re.M):
            cls = by_code.get(code)
            out.append(cls[0] if cls and len(cls) == 1 else 'code%s' % code)
        return ','.join(out) if out else 'Incoherent'

    def remove(self):
        if self.saved:
            setattr(self.saved[0], 'validate', self.saved[1])
            self.saved = None

    def capture(self, qc, br, sysworld):
        versions, entries, tips, repo = [], [], set(), None

        def vid(v):
            if v not in versions:
                versions.append(v)
            return versions.index(v)
        for version, q in qc._queues.items():
            masterq = q[br.QueueBranch]
            ints = q[br.QueueIntegrationBranch]
            repo = repo or (masterq.repo if masterq else (ints[0].repo if ints else None))
            m = masterq.get_latest_commit() if masterq else None
            its = [(b.pr_id, b.get_latest_commit()) for b in ints]
            if masterq:
                d = masterq.dst_branch.get_latest_commit()
            else:
                d = its[0][1] if its else None
            tips.update([x for x in [m, d] if x] + [t for _, t in its])
            entries.append({'v': vid(version), 'k': {2: 'D', 3: 'S', 4: 'H'}[len(version)], 'd': d, 'm': m,
                            'ints': its})
        paths = [[vid(b.version_t) for b in path] for path in qc.merge_paths]
        graph = {}
        if repo is not None and tips:
            rc, out = sysworld._git(repo.cmd_directory, 'rev-list', '--parents', *sorted(tips), check=False)
            if rc == 0:
                for l in out.splitlines():
                    p = l.split()
                    if p:
                        graph[p[0]] = p[1:]
        return {'entries': entries, 'paths': paths, 'graph': graph}


def validate_request(rec):
    enc = M.Enc(rec['graph'])
    ents = []
    for e in rec['entries']:
        if e['d'] is None or e['d'] not in enc.idx or (e['m'] and e['m'] not in enc.idx) \
                or any(t not in enc.idx for _, t in e['ints']):
            return None
        ents.append('%d:%s:%d:%s:%s' % (e['v'], e['k'], enc.idx[e['d']], enc.idx[e['m']] if e['m'] else 'x',
                                        '+'.join('%d@%d' % (p, enc.idx[t]) for p, t in e['ints']) or '-'))
    paths = ';'.join(','.join(str(v) for v in p) or '-' for p in rec['paths']) or '-'
    return 'validate %s %s %s' % (enc.store(), paths, ';'.join(ents) or '-')


class Explorer:
    """Holds the per-history state; `pre_job` is plugged in as histories' fault_for hook."""

    def __init__(self, seed, model, limit, only=None, dedupe=False):
        self.seed, self.model, self.limit, self.only, self.dedupe = seed, model, limit, only, dedupe
        self.job_index = 0
        self.out = {'seed': seed, 'jobs': 0, 'faulty_runs': 0, 'violations': [], 'mismatch': [], 'hist': {},
                    'nontrivial': [], 'model_checks': 0, 'history': None, 'error': None, 'wall': 0.0,
                    'samples': [], 'oddities': [], 'reset_failures': []}
        self.tap = None
        self.expect = None

    def post_job(self, world, ev, before, rec, after):
        """The job run for real after the exploration (world restored to S): it must reproduce the probe exactly
        (restore + Bert-E's mirror cache + fixed dates => bit-identical refs)."""
        if ev.get('e') == 'drained' or self.expect is None:
            return
        idx, refs_ok, status_ok = self.expect
        self.expect = None
        if idx != self.job_index:
            return
        self.count('rerun_after_restore_checked')
        if after['refs'] != refs_ok or rec.get('status') != status_ok:
            diff = sorted(n for n in set(refs_ok) | set(after['refs']) if refs_ok.get(n) != after['refs'].get(n))
            self.mismatch('restore-determinism', {'event': ev, 'job_index': self.job_index},
                          {'status': rec.get('status'), 'refs_differ': diff[:8]}, {'status': status_ok})

    def count(self, k, n=1):
        self.out['hist'][k] = self.out['hist'].get(k, 0) + n

    def mismatch(self, fn, inp, impl, model):
        if len(self.out['mismatch']) < 20:
            self.out['mismatch'].append({'function': fn, 'input': inp, 'impl': impl, 'model': model})

    def violation(self, ev, fault, what, key, detail):
        if len(self.out['violations']) < 40:
            self.out['violations'].append({'job_index': self.job_index, 'event': ev,
                                           'fault': {k: fault.get(k) for k in ('mode', 'at', 'ref')},
                                           'what': what, 'key': key, 'detail': detail})

    # -------------------------------------------------------------------------------- validate correspondence
    def flush_validate(self, ev):
        if self.tap is None:
            return
        recs, self.tap.records = self.tap.records, []
        if self.model is None:
            return
        reqs, keep = [], []
        for r in recs:
            if 'error' in r or 'result' not in r:
                self.count('validate:unrecorded')
                continue
            q = validate_request(r)
            if q is None:
                self.count('validate:unencodable')
                continue
            reqs.append(q)
            keep.append(r)
        if not reqs:
            return
        for r, q, ans in zip(keep, reqs, self.model.batch(reqs)):
            self.out['model_checks'] += 1
            self.count('validate:' + ('OK' if r['result'] == 'OK' else 'Incoherent'))
            if r['result'] != 'OK':
                self.out['nontrivial'].append('validate|' + r['result'][:60])
            if ans != r['result']:
                self.mismatch('QueueCollection.validate', {'event': ev, 'request': q[:1500]}, r['result'], ans)

    # -------------------------------------------------------------------------------- one job
    def pre_job(self, world, ev, before):
        self.job_index += 1
        self.out['jobs'] += 1
        if self.only is not None and self.only.get('job_index') != self.job_index:
            return None
        try:
            self.explore(world, ev, before)
        except Exception:
            self.mismatch('c02-explorer-crash', {'event': ev, 'job_index': self.job_index},
                          traceback.format_exc()[-1500:], None)
        return None

    def run(self, world, ev, berte=None, fault=None):
        rec = world.run_job(ev, berte=berte, fault=fault)
        self.flush_validate(ev)
        return rec

    def drain(self, world, b, limit=8):
        from .sysworld import Recorder
        res = []
        while b.task_queue.qsize() and limit:
            limit -= 1
            world.trace, world.ops, world.fault = [], [], None
            with Recorder(world):
                job = b.process_task()
            res.append(job.status)
        self.flush_validate({'e': 'drained'})
        return res

    def recover(self, world, ev, force_reset=False):
        """Re-deliver the event to a fresh Bert-E; after the documented queue reset if it reports the queues out
        of order.  Returns (path, final status, destination trees)."""
        fresh = world._new_berte()
        path = 'redeliver'
        try:
            if force_reset:
                st = OUT_OF_ORDER[0]
            else:
                r1 = self.run(world, ev, berte=fresh)
                st = r1['status']
            if st in OUT_OF_ORDER:
                path = 'reset'
                rb = self.run(world, {'e': 'job_api', 'kind': 'rebuild_queues'}, berte=fresh)
                self.count('reset_status:%s' % rb['status'])
                if rb['status'] != 'JobSuccess' and len(self.out['reset_failures']) < 4:
                    self.out['reset_failures'].append({
                        'seed': self.seed, 'job_index': self.job_index, 'event': ev,
                        'fault': getattr(self, 'cur_fault', None), 'rebuild_queues_status': rb['status'],
                        'details': str(rb.get('details'))[:300],
                        'queue_refs': sorted(n for n in world.refs() if n.startswith('q/'))})
                self.drain(world, fresh)
                r2 = self.run(world, ev, berte=fresh)
                st = r2['status']
                if st in OUT_OF_ORDER:
                    path = 'reset-still-out-of-order'
            self.count('recovery:%s' % path)
            self.count('recovery_status:%s' % st)
            return path, st, M.dest_trees(world, world.refs())
        finally:
            while not fresh.task_queue.empty():
                fresh.task_queue.get()
                fresh.task_queue.task_done()
            try:
                fresh.git_repo.delete()
            except Exception:
                pass

    def settle(self, world, ev, jk, before, prs):
        """After the recovery of an interrupted branch admin job, with pull requests waiting in the queue: let the
        queue be evaluated once with every queue build green (through the documented reset if it is reported out of
        order) and look at the remote again - a pull request must not end up on some of its targets only because the
        interrupted job left the queues behind the cascade."""
        if not jk.startswith('job_api:') or jk.split(':')[1] not in ('create_branch', 'delete_branch') \
                or not world.cfg['use_queue']:
            return []
        q = sorted(n for n in world.refs() if n.startswith('q/w/'))
        if not q:
            return []
        for n in q:
            world.apply({'e': 'build', 'ref': n, 'state': 'SUCCESSFUL'})
        self.count('settle_after_admin_recovery')
        path, st, _trees = self.recover(world, {'e': 'job_commit', 'sha': world.refs()[q[-1]]})
        self.count('settle_status:%s' % st)
        out = []
        # the pull requests to look at: those open before the job (a queue merge lands them)
        for v in M.state_violations(world, before, world.refs(), prs):
            v = dict(v, what=v['what'] + ' after the queue was evaluated following the recovery', settle_status=st)
            out.append(v)
        return out

    def explore(self, world, ev, before):
        jk = job_kind(ev)
        if ev['e'] == 'job_commit' and not ev.get('sha'):
            sha = before['refs'].get(ev.get('ref'))
            if sha is None:
                return
            ev = dict(ev, sha=sha)                      # the same event is re-delivered: pin the commit
        graph0 = {h: v[0] for h, v in world.graph().items()}
        state = world.snapshot()
        try:
            # ---- probe --------------------------------------------------------------------------------
            rec0 = self.run(world, ev)
            ops = rec0['ops']
            dump_ok = world.dump()
            refs_ok = dump_ok['refs']
            trees_ok = M.dest_trees(world, refs_ok)
            status_ok = rec0['status']
            self.expect = (self.job_index, refs_ok, status_ok)
            self.count('probe_status:%s' % status_ok)
            self.count('ops_per_job:%d' % min(len(ops), 12))
            if not ops:
                return
            from . import tracecheck as tc
            graph = dict(graph0)
            graph.update({h: v[0] for h, v in world.graph().items()})
            graph.update(world.local_graph(tc.shas_of(rec0)))
            enc = M.Enc(graph)
            prs, skipped = M.eligible_prs(world, before)
            if skipped:
                self.count('prs_not_all_or_none_before_job', len(skipped))
            pairs = chain_pairs(before['refs'])
            incl_before = not M.incl_failures(world, before['refs'])
            moved_ok = sorted(n for n in refs_ok if is_dest(n) and before['refs'].get(n) != refs_ok[n])
            pub, pub_err = None, None
            try:
                pub = M.pub_list(rec0)
            except ValueError as exc:
                pub_err = str(exc)
                self.mismatch('publication_list', {'event': ev, 'job_index': self.job_index}, pub_err,
                              'PNames / PDel / PAll / PHost')
            if pub is not None:
                self.check_shape(ev, before, rec0, pub, enc, prs, pairs)
            # ---- placements ---------------------------------------------------------------------------
            allp = placements(rec0)
            if self.only is not None:
                f = self.only['fault']
                chosen = [{k: v for k, v in f.items() if v is not None}]
            else:
                rng = random.Random(self.seed * 7919 + self.job_index)
                chosen = sample_placements(allp, ops, rng, self.limit)
                if self.dedupe:
                    chosen = self.dedupe_crashes(chosen, len(ops))
            self.count('placements_possible', len(allp))
            if getattr(self, 'collect_info', False):
                self.out.setdefault('jobinfo', []).append({
                    'job_index': self.job_index, 'event': ev, 'status': status_ok, 'moved': moved_ok,
                    'ops': [M.op_kind(o) for o in ops], 'placements': allp})
            # the uninterrupted run followed by the same re-delivery (an evaluation is not idempotent on the
            # destinations: the first one queues, a second one may already merge when the builds are green)
            twin = self.recover(world, ev)
            cache = {core.canon({k: v for k, v in dump_ok.items() if k != 'pending'}): twin}
            for fault in chosen:
                world.restore(state)
                self.one_fault(world, ev, before, jk, ops, pub, enc, prs, pairs, incl_before, fault,
                               refs_ok, trees_ok, status_ok, moved_ok, twin, cache, state)
        finally:
            world.restore(state)
            world.drop_snapshot(state)

    @staticmethod
    def dedupe_crashes(chosen, n):
        """crash_after i and crash_before i+1 leave the same remote state: keep one of the two."""
        return [f for f in chosen if not (f['mode'] == 'crash_after' and f['at'] + 1 < n)]

    def check_shape(self, ev, before, rec0, pub, enc, prs, pairs):
        # retries of a failed push are the same command again: collapse them for the shape
        eff, prev = [], None
        for op, o in zip(rec0['ops'], pub):
            if prev is not None and prev[0].get('ok') is False and prev[0]['kind'] == op['kind'] \
                    and prev[0]['detail'] == op['detail']:
                prev = (op, o)
                continue
            eff.append(o)
            prev = (op, o)
        probs = M.shape_problems(ev, eff, before['refs'])
        for p in probs:
            self.mismatch('publication_shape', {'event': ev, 'job_index': self.job_index,
                                                'ops': [M.op_kind(o) for o in rec0['ops']]}, p,
                          'at most one atomic push; named pushes only of w/ and q/ names')
        if self.model is not None and enc.closed:
            protected = sorted({t for p in prs for t in p['targets']} | {x for ab in pairs for x in ab})
            api_branch = ev.get('args', {}).get('branch') if ev.get('e') == 'job_api' else None
            protected = [n for n in protected if n != api_branch]
            try:
                ans = self.model.batch(['shape %s %s' % (enc.names_list(protected), M.enc_ops(enc, eff))])[0]
            except Exception:
                ans = 'ERR'
            self.out['model_checks'] += 1
            if ans != ('0' if probs else '1') and not (probs and ans == '1' and api_branch):
                self.mismatch('Spec.shape_ok', {'event': ev, 'job_index': self.job_index}, not probs, ans)

    def one_fault(self, world, ev, before, jk, ops, pub, enc, prs, pairs, incl_before, fault, refs_ok, trees_ok,
                  status_ok, moved_ok, twin, cache, state):
        mode, opk = fault_label(fault, ops)
        self.cur_fault = fault
        f = recorder_fault(fault, ops)
        try:
            rec = self.run(world, ev, fault=f)
        finally:
            remove_reject_hook(world)
        self.out['faulty_runs'] += 1
        fired = bool(f.get('crashed') or f.get('fired'))
        if fault['mode'] == 'reject':
            refused = [o for o in rec['ops'] if o.get('ok') is False]
            self.count('reject_refused_by_git' if refused else 'reject_not_refused')
        refs_f = world.refs()
        self.count('fault:%s' % fault['mode'])
        self.count('fired' if fired else 'not_fired')
        switched = [n for n in moved_ok if refs_f.get(n) == refs_ok.get(n)]
        nswitch = 'none' if not moved_ok else ('all' if len(switched) == len(moved_ok) else
                                               ('no' if not switched else 'SOME'))
        # ---- CORR: the extracted model on the recorded publication list, same fault --------------------
        if self.model is not None and pub is not None and enc.closed and enc.knows(before['refs']) \
                and fault['mode'] != 'concurrent':
            try:
                req = 'publish %s %s %s %s' % (enc.store(), enc.refs(before['refs']), M.enc_fault(enc, fault),
                                               M.enc_ops(enc, pub))
                ans = self.model.batch([req])[0]
                self.out['model_checks'] += 1
                got = enc.decode_refs(ans) if ans.startswith('R') else None
                if got != refs_f:
                    diff = sorted(n for n in set(refs_f) | set(got or {}) if (got or {}).get(n) != refs_f.get(n))
                    self.mismatch('publish', {'event': ev, 'job_index': self.job_index, 'fault': fault,
                                              'ops': [M.op_kind(o) for o in ops]},
                                  {n: refs_f.get(n) for n in diff[:8]},
                                  {n: (got or {}).get(n) for n in diff[:8]} if got is not None else ans[:300])
            except Exception:
                self.mismatch('publish-request-crash', {'event': ev, 'fault': fault},
                              traceback.format_exc()[-800:], None)
        # ---- monitor: the statement on the real remote -------------------------------------------------
        viol = M.state_violations(world, before, refs_f, prs)
        for v in viol:
            key = '%s|%s|%s|%s' % (v['what'], jk, mode, opk)
            self.violation(ev, fault, '%s broken by %s at operation %d (%s) of %s' % (
                v['what'], fault['mode'], fault.get('at', 0), opk, jk), key, v)
        if self.model is not None and enc.closed and enc.knows(refs_f) and all(p['tip'] in enc.idx for p in prs):
            try:
                ans = self.model.batch(['check %s %s %s %s' % (
                    enc.store(), enc.refs(refs_f), M.enc_prs(enc, prs),
                    M.enc_pairs(enc, pairs) if incl_before else '-')])[0]
                self.out['model_checks'] += 1
                if ans != ('0' if viol else '1'):
                    self.mismatch('Spec.state_ok_b', {'event': ev, 'fault': fault, 'job_index': self.job_index},
                                  not viol, ans)
            except Exception:
                self.mismatch('check-request-crash', {'event': ev, 'fault': fault},
                              traceback.format_exc()[-800:], None)
        # ---- recovery (deterministic: one run per distinct interrupted state) --------------------------------
        skey = core.canon({k: v for k, v in world.dump().items() if k != 'pending'})
        if skey in cache:
            path, st, trees_r = cache[skey][:3]
            viol_r = cache[skey][3] if len(cache[skey]) > 3 else []
            self.count('recovery_reused')
        else:
            path, st, trees_r = self.recover(world, ev)
            # the remote is observable after the recovery as well
            viol_r = M.state_violations(world, before, world.refs(), prs)
            viol_r += self.settle(world, ev, jk, before, prs)
            cache[skey] = (path, st, trees_r, viol_r)
        for v in viol_r:
            key = '%s-after-recovery|%s|%s|%s' % (v['what'], jk, mode, opk)
            self.violation(ev, fault, '%s broken after %s at operation %d (%s) of %s followed by the recovery (%s)' % (
                v['what'], fault['mode'], fault.get('at', 0), opk, jk, path), key, v)
        diff = M.tree_differences(trees_ok, trees_r)
        if fault['mode'] == 'concurrent':
            # the third party's commit is part of the content now: instead of equality, every pull request the
            # uninterrupted run landed on a branch is on that branch after the recovery
            diff = []
            refs_r = world.refs()
            # (only when the re-delivery ends the way the uninterrupted run did: with the branch moved, a pull
            # request that could be merged directly may now have to go through the queue first)
            for p in (prs if st == status_ok else []):
                for t in p['targets']:
                    if t in refs_ok and t in refs_r and world.is_ancestor(p['tip'], refs_ok[t]) \
                            and not world.is_ancestor(p['tip'], refs_r[t]):
                        diff.append(t)
            diff = sorted(set(diff))
        if diff and twin is not None and not M.tree_differences(twin[2], trees_r):
            self.count('recovery_equals_twice_delivered_twin')
            diff = []
        if diff and path.startswith('reset'):
            # the documented reset rebuilds the queues from scratch (order, membership and gates are evaluated
            # again): the like-for-like reference is the same reset applied to the uninterrupted state
            if 'reset_twin' not in cache:
                world.restore(state)
                self.run(world, ev)
                cache['reset_twin'] = self.recover(world, ev, force_reset=True)
            if not M.tree_differences(cache['reset_twin'][2], trees_r):
                self.count('recovery_equals_reset_twin')
                diff = []
        if st not in (status_ok, twin[1] if twin else None) or path != 'redeliver':
            self.count('recovery_other_status:%s->%s' % (status_ok, st))
            if len(self.out['oddities']) < 6 and (st not in (status_ok, twin[1] if twin else None)):
                self.out['oddities'].append({'seed': self.seed, 'job_index': self.job_index, 'job': jk, 'fault': fault,
                                             'op': opk, 'status_uninterrupted': status_ok, 'path': path,
                                             'status_twice_delivered': twin[1] if twin else None,
                                             'status_recovery': st})
        if diff:
            key = 'recovery|%s|%s|%s|%s->%s' % (jk, mode.split(':')[0], path, status_ok, st)
            self.violation(ev, fault, 'after %s at operation %d (%s) of %s and recovery (%s), the content of %s '
                           'differs from the uninterrupted run' % (fault['mode'], fault.get('at', 0), opk, jk,
                                                                   path, ', '.join(diff)), key,
                           {'what': 'recovery', 'branches': diff, 'path': path, 'status_uninterrupted': status_ok,
                            'status_recovery': st, 'moved_uninterrupted': moved_ok,
                            'status_twice_delivered': twin[1] if twin else None})
        if fired:
            self.out['nontrivial'].append('%s|%s|%s|%s|%s|%s' % (jk.replace('job_', ''), status_ok[:14], mode, opk,
                                                                 nswitch, path))
        if len(self.out['samples']) < 2 and fired and moved_ok:
            self.out['samples'].append({'job': jk, 'status_uninterrupted': status_ok, 'fault': fault, 'op': opk,
                                        'destinations_moved_uninterrupted': moved_ok,
                                        'destinations_moved_under_fault': switched, 'recovery': path})


# ------------------------------------------------------------------------------------- history families
def histories_dev_key(n):
    v = n.split('/', 1)[1].split('.')
    return (int(v[0]), int(v[1]) if len(v) > 1 else 10 ** 6)       # development/<major> comes last in its major


def scripted_and_run(seed, fault_for=None, on_job=None):
    """Short histories that reach Queued and Merged quickly: one or two pull requests driven straight through
    evaluation, green builds, queueing (or the direct merge) and the queue merge; layout / mode / strategy and
    the destinations vary with the seed."""
    from . import histories, sysworld
    rng = random.Random(seed * 104729 + 7)
    layout = rng.choice([histories.LAYOUTS[1], histories.LAYOUTS[3], histories.LAYOUTS[4], histories.LAYOUTS[2],
                         histories.LAYOUTS[7], histories.LAYOUTS[5]])
    mode = rng.choice(['queue', 'queue', 'queue', 'noqueue', 'skip'])
    cfg = dict(sysworld.DEFAULT_CFG)
    cfg.update({'layout': layout, 'use_queue': mode != 'noqueue', 'skip_queue': mode == 'skip',
                'no_octopus': rng.random() < 0.3, 'always_prs': rng.random() < 0.5,
                'always_branches': True})
    world = sysworld.World(cfg)
    events, log = [], []

    def do(ev):
        events.append(ev)
        sub = histories.run_history(world, [ev], on_job=on_job, fault_for=fault_for)
        log.extend(sub)
        return sub[0]
    try:
        dests, hot = histories.dest_names(layout)
        n = rng.choice([1, 2, 2])
        prs = []
        for i in range(n):
            dst = rng.choice(dests[:-1] + hot) if len(dests) > 1 and rng.random() < 0.8 else rng.choice(dests)
            src = '%s/TEST-%d' % (rng.choice(['bugfix', 'improvement']), i + 1)
            r = do({'e': 'create_pr', 'src': src, 'dst': dst, 'label': 's%d_%d' % (seed, i)})
            prs.append({'id': r.get('res', {}).get('pr'), 'src': src, 'dst': dst})
        gen = histories.Gen(rng, cfg)
        for p in prs:
            if p['id'] is None:
                continue
            do({'e': 'job_pr', 'pr': p['id']})
            for nme in gen.tips_of(p, world.refs()):
                do({'e': 'build', 'ref': nme, 'state': 'SUCCESSFUL'})
            do({'e': 'job_pr', 'pr': p['id']})
        if mode != 'noqueue' and seed % 4 == 0 and any(x.startswith('q/w/') for x in world.refs()):
            # a branch admin job while pull requests wait in the queue: a new newest development branch, or a
            # stabilization branch of the newest line (both make the queues lag behind the cascade until rebuilt)
            devs = sorted((histories_dev_key(d), d) for d in dests if d.startswith('development/'))
            major = devs[-1][0][0]
            do({'e': 'job_api', 'kind': 'create_branch', 'args': {'branch': rng.choice(
                ['development/%d.0' % (major + 1), 'development/%d.%d' % (
                    major, max([k[1] for k, _d in devs if k[0] == major and k[1] < 10 ** 6] + [-1]) + 1)])}})
        for _round in range(2):
            q = sorted(x for x in world.refs() if x.startswith('q/w/'))
            if not q:
                break
            for nme in q:
                do({'e': 'build', 'ref': nme, 'state': 'SUCCESSFUL'})
            do({'e': 'job_commit', 'ref': rng.choice(q)})
        if rng.random() < 0.35 and mode != 'noqueue':
            do({'e': 'job_api', 'kind': rng.choice(['rebuild_queues', 'delete_queues'])})
        for p in prs:
            if p['id'] is not None and rng.random() < 0.5:
                do({'e': 'job_pr', 'pr': p['id']})
    finally:
        world.close()
    return {'cfg': cfg, 'events': events, 'seed': seed, 'family': 'scripted'}, log


FAMILIES = ('scripted', 'lifecycle', 'random')


def _worker(args):
    seed, family, length, exe, limit, dedupe, replay = args
    os.environ['PYTHONHASHSEED'] = '0'
    from . import histories, sysworld
    model = core.Model(exe) if exe else None
    only = None
    if replay is not None:
        only = {'job_index': replay['job_index'], 'fault': replay['fault']}
    ex = Explorer(seed, model, limit, only=only, dedupe=dedupe)
    t0 = time.time()
    tap = None
    try:
        # the tap needs bert_e imported with the harness patches: a throw-away import through World happens in
        # the family runners; install lazily at the first job
        installed = []

        def fault_for(world, ev, before):
            if not installed:
                t = ValidateTap(world)
                t.install()
                ex.tap = t
                installed.append(t)
            return ex.pre_job(world, ev, before)
        if replay is not None:
            histories.replay(replay['history'], fault_for=fault_for, on_job=ex.post_job)
            ex.out['history'] = replay['history']
        elif family == 'scripted':
            h, _ = scripted_and_run(seed, fault_for=fault_for, on_job=ex.post_job)
            ex.out['history'] = h
        elif family == 'lifecycle':
            h, _ = histories.lifecycle_and_run(seed, fault_for=fault_for, on_job=ex.post_job)
            ex.out['history'] = h
        else:
            h, _ = histories.generate_and_run(seed, length=length, fault_for=fault_for, on_job=ex.post_job)
            ex.out['history'] = h
    except Exception:
        ex.out['error'] = traceback.format_exc()[-2000:]
    finally:
        if ex.tap is not None:
            ex.tap.remove()
    ex.out['wall'] = time.time() - t0
    ex.out['family'] = family
    out = ex.out
    if not out['violations'] and not out['mismatch'] and not out['error'] and out['history']:
        out['history'] = {'cfg': out['history']['cfg'], 'n_events': len(out['history']['events']),
                          'family': out['history'].get('family', family)}
    return out


def run(ctx, plan, length, limit, dedupe=False, workers=16, replay=None, budget_s=None):
    """plan: [(seed, family)].  Fills ctx."""
    exe = ctx.model.exe if ctx.model is not None else None
    if replay is not None:
        replays = replay if isinstance(replay, list) else [replay]
        jobs = [(r.get('seed', 0), 'replay', length, exe, None, False, r) for r in replays]
    else:
        jobs = [(s, fam, length, exe, limit, dedupe, None) for s, fam in plan]
    import multiprocessing
    import shutil
    import tempfile
    mp = get_context('fork')
    results, skipped = [], 0
    scratch = tempfile.mkdtemp(prefix='verif_c02_')
    old_scratch = os.environ.get('VERIF_SCRATCH')
    os.environ['VERIF_SCRATCH'] = scratch           # every world of this run lives (and dies) under it
    deadline = time.time() + budget_s if budget_s else None
    try:
        with mp.Pool(min(workers, max(1, len(jobs)))) as pool:
            it = pool.imap_unordered(_worker, jobs, chunksize=1)
            while len(results) < len(jobs):
                try:
                    results.append(it.next(timeout=max(1.0, deadline - time.time())) if deadline else next(it))
                except StopIteration:
                    break
                except multiprocessing.TimeoutError:
                    skipped = len(jobs) - len(results)   # wall-clock budget reached: keep what is finished
                    pool.terminate()
                    break
    finally:
        if old_scratch is None:
            os.environ.pop('VERIF_SCRATCH', None)
        else:
            os.environ['VERIF_SCRATCH'] = old_scratch
        shutil.rmtree(scratch, ignore_errors=True)
    results.sort(key=lambda r: (str(r.get('family')), r['seed']))
    if skipped:
        ctx.count('histories_not_run_wall_clock_budget', skipped)
        ctx.notes.append('%d of %d histories were not run: the wall-clock budget of %d s was reached '
                         '(loaded machine); every number in this evidence counts finished histories only'
                         % (skipped, len(jobs), budget_s))
    for r in results:
        ctx.evaluations += r['faulty_runs']
        ctx.traces_validated += r['model_checks']
        ctx.count('jobs', r['jobs'])
        ctx.extra.setdefault('history_wall_s', []).append([r.get('family'), r['seed'], r['jobs'], r['faulty_runs'],
                                                          round(r['wall'], 1)])
        ctx.count('histories:%s' % r.get('family'))
        for k, v in r['hist'].items():
            ctx.count(k, v)
        for k in r['nontrivial']:
            ctx.seen_nontrivial(k)
        if r['error']:
            ctx.mismatch({'seed': r['seed'], 'family': r.get('family')}, r['error'], None, 'history-harness-crash')
        for m in r['mismatch']:
            ctx.mismatch({'seed': r['seed'], 'history': r['history'], 'at': m['input']}, m['impl'], m['model'],
                         m['function'])
        for v in r['violations']:
            ctx.violation({'seed': r['seed'], 'history': r['history'], 'job_index': v['job_index'],
                           'event': v['event'], 'fault': v['fault']},
                          'all-or-none and inclusion at every fault; same destination content after recovery',
                          v['detail'], v['what'], key=v['key'])
            keys = ctx.extra.setdefault('violation_keys', {})
            keys[v['key']] = keys.get(v['key'], 0) + 1
        for s in r['samples']:
            ctx.sample(s)
        for o in r.get('reset_failures', []):
            if len(ctx.extra.setdefault('rebuild_queues_failures_during_recovery', [])) < 8:
                ctx.extra['rebuild_queues_failures_during_recovery'].append(o)
        for o in r.get('oddities', []):
            if len(ctx.extra.setdefault('recoveries_ending_in_another_status', [])) < 12:
                ctx.extra['recoveries_ending_in_another_status'].append(o)
    return results
