"""C19 - abstraction of the real world (mock host + bare repository dump) into the vocabulary of
coq/Model/Integration.v, and the executable monitors of the statement evaluated on real dumps.

Nothing here looks at the model: the monitors are written from the property statement
  "each pull request has at most one integration branch and at most one open integration pull request per
   target beyond the first, named and titled after it; [...] Declining the parent declines exactly its open
   integration pull requests and deletes exactly its integration branches, and merging it removes them."
Each monitor returns a list of violation dicts (empty = the clause held).
"""
import re

ROBOT = 'bert-e'

_PREFIXES = None


def feature_prefixes():
    global _PREFIXES
    if _PREFIXES is None:
        from bert_e.workflow.gitwaterflow.branches import FeatureBranch
        _PREFIXES = tuple(FeatureBranch.all_prefixes)
    return _PREFIXES


def _feature_re():
    return r'(?:%s)/.+' % '|'.join(re.escape(p) for p in feature_prefixes())


VERSION = r'\d+(?:\.\d+){0,3}'


def parse_name(n):
    """Branch name -> structured name of the model: ('S', src) ('W', v, src) ('D', v) ('Q', v) ('O', n)."""
    m = re.match(r'^w/(%s)/(%s)$' % (VERSION, _feature_re()), n)
    if m:
        return ('W', m.group(1), m.group(2))
    m = re.match(r'^q/(%s)$' % VERSION, n)
    if m:
        return ('Q', m.group(1))
    m = re.match(r'^development/(\d+(?:\.\d+)?)$', n) or re.match(r'^stabilization/(\d+\.\d+\.\d+)$', n) \
        or re.match(r'^hotfix/(\d+\.\d+\.\d+)$', n)
    if m:
        return ('D', m.group(1))
    if re.match(r'^%s$' % _feature_re(), n):
        return ('S', n)
    return ('O', n)


def first_number(text):
    ids = re.findall(r'\d+', text or '')
    return int(ids[0]) if ids else None


def title_parent(title):
    m = re.match(r'^INTEGRATION \[PR#(\d+) > ', title or '')
    return int(m.group(1)) if m else None


def abstract(dump):
    """{'prs': [...], 'refs': {...}} -> abstract world {'prs': [dict], 'branches': [tuple]} (ids ascending)."""
    prs = []
    for p in sorted(dump['prs'], key=lambda p: p['id']):
        prs.append({'id': p['id'], 'robot': p['author'] == ROBOT, 'src': parse_name(p['src']),
                    'dst': parse_name(p['dst']), 'state': p['state'], 'parent': first_number(p['description']),
                    'title': title_parent(p['title']), 'src_name': p['src'], 'dst_name': p['dst']})
    return {'prs': prs, 'branches': [parse_name(n) for n in sorted(dump['refs'])]}


def dest_order(refs):
    """Destination branches of the remote in cascade order (as sysworld.World.dest_branches)."""
    devs = []
    for n in refs:
        m = re.match(r'^development/(\d+)(?:\.(\d+))?$', n)
        if m:
            devs.append(((int(m.group(1)), 1 if m.group(2) is None else 0, int(m.group(2) or 0), 1, 0), n))
        m = re.match(r'^stabilization/(\d+)\.(\d+)\.(\d+)$', n)
        if m:
            devs.append(((int(m.group(1)), 0, int(m.group(2)), 0, int(m.group(3))), n))
    return [n for _, n in sorted(devs)]


def cascade_table(refs):
    """destination branch name -> list of target branch names (first = itself), read off the statement of C09:
    the destination, then every later development branch; a hotfix branch is its own only target."""
    order = dest_order(refs)
    table = {}
    for i, d in enumerate(order):
        table[d] = [d] + [x for x in order[i + 1:] if x.startswith('development/')]
    for n in refs:
        if re.match(r'^hotfix/\d+\.\d+\.\d+$', n):
            table[n] = [n]
    return table


def version_of(dest):
    t = parse_name(dest)
    if t[0] != 'D':
        raise ValueError('not a destination: %s' % dest)
    return t[1]


def version_table(refs):
    """cascade_table on versions; fail closed when two destinations share a version string."""
    tab = cascade_table(refs)
    vs = [version_of(d) for d in tab]
    if len(set(vs)) != len(vs):
        raise ValueError('two destination branches with the same version: %r' % sorted(tab))
    return {version_of(d): [version_of(t) for t in ts] for d, ts in tab.items()}


# ------------------------------------------------------------------------------------------ the statement

def open_user_prs(aw):
    return [p for p in aw['prs'] if not p['robot'] and p['state'] == 'OPEN' and p['src'][0] == 'S']


def distinct_sources(aw):
    """Hypothesis of the partial theorem: open pull requests have pairwise distinct source branches."""
    srcs = [p['src'] for p in aw['prs'] if p['state'] == 'OPEN' and p['src'][0] == 'S']
    return len(srcs) == len(set(srcs))


def shared_sources(aw):
    """Two user pull requests (whatever their state) come from the same branch: the situation in which the
    statement is known to fail (w/<version>/<source> is keyed on the source branch name)."""
    srcs = [p['src'] for p in aw['prs'] if not p['robot'] and p['src'][0] == 'S']
    return len(srcs) != len(set(srcs))


def one_to_one(aw):
    """OneToOne of Spec/C19Spec.v, from the statement: for every open user pull request p and version v, at
    most one branch w/v/src(p), at most one OPEN robot pull request w/v/src(p) -> destination of v, and it is
    named (description) and titled after p."""
    out = []
    for p in open_user_prs(aw):
        s = p['src'][1]
        ws = [b for b in aw['branches'] if b[0] == 'W' and b[2] == s]
        for b in set(ws):
            if ws.count(b) > 1:
                out.append({'what': 'two integration branches of the same name', 'pr': p['id'], 'branch': list(b)})
        kids = {}
        for c in aw['prs']:
            if c['robot'] and c['state'] == 'OPEN' and c['src'][0] == 'W' and c['src'][2] == s \
                    and c['dst'] == ('D', c['src'][1]):
                kids.setdefault(c['src'][1], []).append(c)
        for v, cs in sorted(kids.items()):
            if len(cs) > 1:
                out.append({'what': 'more than one open integration pull request for a target', 'pr': p['id'],
                            'version': v, 'children': [c['id'] for c in cs]})
            for c in cs:
                if c['parent'] != p['id'] or c['title'] != p['id']:
                    out.append({'what': 'integration pull request not named / titled after its pull request',
                                'pr': p['id'], 'version': v, 'child': c['id'], 'description_names': c['parent'],
                                'title_names': c['title']})
    return out


def integration_prs_of(aw, p):
    """'its open integration pull requests': OPEN, opened by the robot, named after p."""
    return [c for c in aw['prs'] if c['robot'] and c['state'] == 'OPEN' and c['parent'] == p['id']]


def integration_branches_of(aw, p, vtable):
    """'its integration branches': w/<v>/<source of p> for the targets v beyond the first, among existing ones."""
    if p['src'][0] != 'S' or p['dst'][0] != 'D' or p['dst'][1] not in vtable:
        return []
    want = [('W', v, p['src'][1]) for v in vtable[p['dst'][1]][1:]]
    return [b for b in want if b in aw['branches']]


def w_set(aw):
    return set(b for b in aw['branches'] if b[0] == 'W')


def decline_clause(pre, post, p, vtable):
    """The job handled the decline of p (status PullRequestDeclined): exactly its open integration pull requests
    got DECLINED and exactly its integration branches were deleted."""
    out = []
    pre_state = {c['id']: c['state'] for c in pre['prs']}
    declined_now = sorted(c['id'] for c in post['prs'] if c['state'] == 'DECLINED' and pre_state.get(c['id']) == 'OPEN')
    its = sorted(c['id'] for c in integration_prs_of(pre, p))
    if declined_now != its:
        out.append({'what': 'decline: declined pull requests are not exactly its open integration pull requests',
                    'pr': p['id'], 'declined': declined_now, 'its_open_integration_prs': its})
    gone = sorted(w_set(pre) - w_set(post))
    own = sorted(integration_branches_of(pre, p, vtable))
    if gone != own:
        out.append({'what': 'decline: deleted integration branches are not exactly its integration branches',
                    'pr': p['id'], 'deleted': [list(b) for b in gone], 'its_integration_branches': [list(b) for b in own]})
    new = sorted(w_set(post) - w_set(pre))
    if new:
        out.append({'what': 'decline: integration branch created', 'pr': p['id'], 'created': [list(b) for b in new]})
    return out


def merge_clause(post, p, vtable):
    """p has just been merged: none of its integration branches is left."""
    left = integration_branches_of(post, p, vtable)
    if left:
        return [{'what': 'merge: integration branches left after the merge', 'pr': p['id'],
                 'left': [list(b) for b in left]}]
    return []


# statuses of an evaluation that stopped BEFORE the decline handling of a DECLINED pull request (early_checks,
# handle_comments and the commands, check_dependencies); NothingToDo is one of them only with the wait option
BEFORE_DECLINE_HANDLING = {'NotMyJob', 'WrongDestination', 'UnknownCommand', 'NotEnoughCredentials', 'NotAuthor',
                           'IncorrectCommandSyntax', 'HelpMessage', 'StatusReport', 'CommandNotImplemented',
                           'LossyResetWarning', 'AfterPullRequest', 'IncorrectPullRequestNumber'}


def integration_data_of(aw, p):
    """What is left of the integration data of p: every w/<version>/<source of p> branch and every OPEN pull
    request of the robot that is named after p or comes from such a branch."""
    s = p['src'][1]
    return {'branches': sorted(b for b in aw['branches'] if b[0] == 'W' and b[2] == s),
            'open_integration_prs': sorted(c['id'] for c in aw['prs'] if c['robot'] and c['state'] == 'OPEN' and
                                           (c['parent'] == p['id'] or (c['src'][0] == 'W' and c['src'][2] == s)))}


def evaluated_declined_pr(pre, ev):
    """The DECLINED user pull request this event is an evaluation of, by the statement: the pull request of a
    pull request event, or the parent an integration pull request is named after.  (Commit events only ever
    reach open pull requests.)"""
    if ev.get('e') != 'job_pr':
        return None
    p = next((q for q in pre['prs'] if q['id'] == ev['pr']), None)
    if p is not None and p['robot'] and p['src'][0] == 'W':
        p = next((q for q in pre['prs'] if q['id'] == p['parent'] and p['title'] == q['id']), None)
    if p is None or p['robot'] or p['state'] != 'DECLINED' or p['src'][0] != 'S':
        return None
    return p


def declined_stays_clean(pre, post, p, status, waits):
    """'However often and in whatever order events arrive ... declining the parent ... deletes exactly its
    integration branches': after ANY evaluation of a DECLINED pull request p (whose source branch no other open
    pull request uses) that gets to the decline handling, no w/<version>/<source> branch and no OPEN integration
    pull request of p exists; and no evaluation of p, wherever it stops, creates one.
    `waits`: the wait option is set on p (then NothingToDo comes from check_dependencies)."""
    s = p['src']
    for aw in (pre, post):
        if any(q['id'] != p['id'] and q['state'] == 'OPEN' and q['src'] == s for q in aw['prs']):
            return []
    left, had = integration_data_of(post, p), integration_data_of(pre, p)
    if not left['branches'] and not left['open_integration_prs']:
        return []
    created = [b for b in left['branches'] if b not in had['branches']] or \
        [i for i in left['open_integration_prs'] if i not in had['open_integration_prs']]
    stopped_before = status in BEFORE_DECLINE_HANDLING or (status == 'NothingToDo' and waits)
    if created or not stopped_before:
        return [{'what': 'declined: integration data of a declined pull request exists after its evaluation',
                 'pr': p['id'], 'status': status, 'branches': [list(b) for b in left['branches']],
                 'open_integration_prs': left['open_integration_prs'],
                 'created_by_this_evaluation': bool(created)}]
    return []


def parent_of_event(pre, ev, refs):
    """The pull request an event must be handled as, according to the statement (None: the statement does not
    say - not an event on an integration pull request / on a source or integration tip of an open pull request).
    """
    if ev['e'] == 'job_pr':
        c = next((q for q in pre['prs'] if q['id'] == ev['pr']), None)
        if c is None or not c['robot'] or c['src'][0] != 'W':
            return None
        par = next((q for q in pre['prs'] if q['id'] == c['parent'] and not q['robot']), None)
        return par['id'] if par and c['title'] == par['id'] else None
    if ev['e'] == 'job_commit':
        sha = ev.get('sha') or refs.get(ev.get('ref'))
        names = [parse_name(n) for n, s in refs.items() if s == sha]
        if not names or any(n[0] not in ('S', 'W') for n in names):
            return None
        srcs = set(n[1] if n[0] == 'S' else n[2] for n in names)
        if len(srcs) != 1:
            return None
        s = srcs.pop()
        cands = [q for q in pre['prs'] if q['state'] == 'OPEN' and q['src'] == ('S', s)]
        if len(cands) != 1 or cands[0]['robot']:
            return None
        return cands[0]['id']
    return None


def projection(dump):
    """What a twin run must reproduce: refs (with shas: dates are fixed), pull requests, comment classes."""
    return {'refs': dict(dump['refs']),
            'prs': [(p['id'], p['author'], p['src'], p['dst'], p['state'], p['title']) for p in dump['prs']],
            'comments': [(c['pr'], c['by'], c['cls']) for c in dump['comments']]}
