"""Per-author grants (`pr_author_options`): the input "granted by per-author settings" of the gate models.

The models of C04 C06 C07 C11 take, per bypass, one boolean "the settings grant it to the author of this pull
request".  This module ties that input to the real settings loader: for settings files that list SEVERAL authors
with different grants (the loader handles them in one pass), the grants the real `PullRequestJob.author_bypass`
reports for each author must be exactly the names listed under that author - nothing inherited from another
author, nothing lost.  A difference is a violation of the statement ("... or is granted by per-author settings"):
the failing input is the settings fragment and the author."""
import itertools
from types import SimpleNamespace

from . import core


class _Settings(dict):
    __getattr__ = dict.__getitem__


def configs(names, rng, quick):
    """Settings fragments: 2-3 authors, grants drawn from: nothing, one name, two names, everything."""
    fam = [[]] + [[n] for n in names] + [list(names)] + [[a, b] for a, b in itertools.combinations(names[:4], 2)]
    res = []
    for a in fam:
        for b in fam:
            if a != b:
                res.append([('svc-bot', a), ('carol', b)])
    extra = [[('svc-bot', list(names)), ('carol', []), ('dave', [names[0]])],
             [('alice', [names[-1]]), ('svc-bot', list(names)), ('carol', [names[0]])]]
    if quick and len(res) > 120:
        res = rng.sample(res, 120)
    return res + extra


def _coq_str(x):
    return '"' + x.replace('"', '""') + '"'


def _coq_list(xs):
    return '[' + '; '.join(xs) + ']'


def kernel_tie(ctx, items):
    """Model/AuthorOpts.v evaluated by the Coq kernel on the settings fragments the real loader just read:
    items = [(cfg, authors, outcome)] with outcome = ('error', elem) | ('grants', [[names granted] per author])."""
    import os
    import re
    d = os.path.join(core.BUILD, 'cross', 'authoropts')
    os.makedirs(d, exist_ok=True)
    lines = ['From Coq Require Import List String.', 'Require Import BertE.Generated.Facts_C07 BertE.Model.AuthorOpts.',
             'Import ListNotations.', 'Open Scope string_scope.']
    for i, (cfg, authors, out) in enumerate(items):
        c = _coq_list('(%s, %s)' % (_coq_str(u), _coq_list(map(_coq_str, l))) for u, l in cfg)
        a = _coq_list(map(_coq_str, authors))
        rhs = 'inl %s' % _coq_str(out[1]) if out[0] == 'error' else \
            'inr %s' % _coq_list(_coq_list(map(_coq_str, g)) for g in out[1])
        lines.append('Example ao_%d : ao_outcome pr_author_bypass_list %s %s = %s.\nProof. vm_compute. reflexivity. Qed.'
                     % (i, c, a, rhs))
    path = os.path.join(d, 'cases.v')
    with open(path, 'w') as f:
        f.write('\n'.join(lines) + '\n')
    with core.Lock():
        rc, out = core.sh('timeout 900 coqc -Q %s BertE -w -notation-overridden cases.v' % core.COQ, cwd=d)
    ctx.count('per_author_grants_kernel_evaluated', len(items))
    if rc != 0:
        bad = None
        m = re.search(r'line (\d+)', out)
        if m:
            text = open(path).read().split('\n')
            for j in range(min(int(m.group(1)), len(text)) - 1, -1, -1):
                mm = re.match(r'^Example ao_(\d+) ', text[j])
                if mm:
                    bad = items[int(mm.group(1))]
                    break
        ctx.mismatch({'pr_author_options': bad[0], 'authors': bad[1]} if bad else {'file': path},
                     list(bad[2]) if bad else 'loader', 'vm_compute of ao_outcome disagrees: %s' % out[-600:],
                     'AuthorOpts.ao_outcome (Coq kernel) vs PrAuthorsOptions.deserialize + author_bypass')


def check(ctx, relevant=None, kernel=False):
    """relevant: the bypass names this property is about (None = all of them).
    kernel: also evaluate Model/AuthorOpts.v on the same fragments (needs the cone of C07 to be built)."""
    from bert_e.settings import PrAuthorsOptions
    from bert_e.job import PullRequestJob
    probe = PrAuthorsOptions().deserialize({'probe': []})
    names = list(probe.get('probe', {}))
    if not names:
        ctx.mismatch('pr_author_options', 'no bypass name known to the loader', None, 'per-author grants')
        return
    kitems = []
    if kernel:
        # fragments the loader must refuse: an unknown name, in the first / the last author, first / last position
        for cfg in ([('svc-bot', [names[0], 'bypass_everything']), ('carol', [names[1]])],
                    [('svc-bot', [names[0]]), ('carol', ['approve', names[1]])],
                    [('svc-bot', ['bypass_nothing']), ('carol', ['bypass_everything'])],
                    [('svc-bot', []), ('carol', [names[-1], ''])]):
            try:
                PrAuthorsOptions().deserialize({u: list(l) for u, l in cfg})
                kitems.append((cfg, ['carol'], ('grants', 'accepted')))
            except Exception as exc:
                msg = str(exc).split('does not exist: ', 1)[-1]
                if str(exc).endswith("'.") and "'" in str(exc)[:-2]:      # the exception class quotes its message
                    msg = msg[:-2]
                kitems.append((cfg, ['carol'], ('error', msg)))
            ctx.evaluations += 1
    for cfg in configs(names, ctx.rng, ctx.quick):
        raw = {u: list(l) for u, l in cfg}             # insertion order = order in the settings file
        try:
            loaded = PrAuthorsOptions().deserialize(raw)
        except Exception as exc:
            ctx.violation({'pr_author_options': cfg}, 'accepted', type(exc).__name__,
                          'a settings file with valid per-author grants is refused',
                          key=core.canon({'what': 'per-author grants refused'}))
            continue
        # other people whose login merely resembles a listed one (part of it, an extension of it) are granted nothing
        others = [('nobody', [])] + [(n, []) for n in ('bot', 'svc', 'svc-bot2', 'car', 'carol-x', 'a', 'e')
                                     if n not in raw]
        grants_all = []
        for user, listed in cfg + others:
            job = PullRequestJob(pull_request=SimpleNamespace(id=1, author=user, comments=[]), settings={},
                                 bert_e=SimpleNamespace(settings=_Settings(pr_author_options=loaded),
                                                        project_repo=None, git_repo=None))
            got = sorted(k for k, v in job.author_bypass.items() if v)
            grants_all.append([k for k in names if job.author_bypass.get(k, False)])
            want = sorted(listed)
            ctx.evaluations += 1
            ctx.count('per_author_grants:%d_authors' % len(cfg))
            if relevant is not None:
                got = [g for g in got if g in relevant]
                want = [w for w in want if w in relevant]
            if got != want:
                ctx.violation({'pr_author_options': cfg, 'author': user}, want, got,
                              'per-author settings: the grants in effect for an author are not the ones listed for him',
                              key=core.canon({'what': 'per-author grants', 'extra': sorted(set(got) - set(want)),
                                              'missing': sorted(set(want) - set(got))}))
        if kernel and len(kitems) < 160:
            kitems.append((cfg, [u for u, _l in cfg + others], ('grants', grants_all)))
    if kernel and kitems:
        bad = [k for k in kitems if k[2] == ('grants', 'accepted')]
        for cfg, _a, _o in bad:
            ctx.violation({'pr_author_options': cfg}, 'IncorrectSettingsFile', 'accepted',
                          'a settings file that lists an unknown bypass name is accepted',
                          key=core.canon({'what': 'per-author grants: unknown name accepted'}))
        kernel_tie(ctx, [k for k in kitems if k not in bad])
