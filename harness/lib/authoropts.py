"""Per-author grants (`pr_author_options`): the input "granted by per-author settings" of the gate models.

The models of C04 C06 C07 C11 take, per bypass, one boolean "the settings grant it to the author of this pull
request".  This module ties that input to the real settings loader: for settings files that list SEVERAL authors
with different grants (the loader handles them in one pass), the grants the real `PullRequestJob.author_bypass`
reports for each author must be exactly the names listed under that author - nothing inherited from another
author, nothing lost.  A difference is a violation of the statement ("... or is granted by per-author settings"):
the failing input is the settings fragment and the author."""
import itertools
from types import SimpleNamespace

from . import core


class _Settings(dict):
    __getattr__ = dict.__getitem__


def configs(names, rng, quick):
    """Settings fragments: 2-3 authors, grants drawn from: nothing, one name, two names, everything."""
    fam = [[]] + [[n] for n in names] + [list(names)] + [[a, b] for a, b in itertools.combinations(names[:4], 2)]
    res = []
    for a in fam:
        for b in fam:
            if a != b:
                res.append([('svc-bot', a), ('carol', b)])
    extra = [[('svc-bot', list(names)), ('carol', []), ('dave', [names[0]])],
             [('alice', [names[-1]]), ('svc-bot', list(names)), ('carol', [names[0]])]]
    if quick and len(res) > 120:
        res = rng.sample(res, 120)
    return res + extra


def check(ctx, relevant=None):
    """relevant: the bypass names this property is about (None = all of them)."""
    from bert_e.settings import PrAuthorsOptions
    from bert_e.job import PullRequestJob
    probe = PrAuthorsOptions().deserialize({'probe': []})
    names = list(probe.get('probe', {}))
    if not names:
        ctx.mismatch('pr_author_options', 'no bypass name known to the loader', None, 'per-author grants')
        return
    for cfg in configs(names, ctx.rng, ctx.quick):
        raw = {u: list(l) for u, l in cfg}             # insertion order = order in the settings file
        try:
            loaded = PrAuthorsOptions().deserialize(raw)
        except Exception as exc:
            ctx.violation({'pr_author_options': cfg}, 'accepted', type(exc).__name__,
                          'a settings file with valid per-author grants is refused',
                          key=core.canon({'what': 'per-author grants refused'}))
            continue
        # other people whose login merely resembles a listed one (part of it, an extension of it) are granted nothing
        others = [('nobody', [])] + [(n, []) for n in ('bot', 'svc', 'svc-bot2', 'car', 'carol-x', 'a', 'e')
                                     if n not in raw]
        for user, listed in cfg + others:
            job = PullRequestJob(pull_request=SimpleNamespace(id=1, author=user, comments=[]), settings={},
                                 bert_e=SimpleNamespace(settings=_Settings(pr_author_options=loaded),
                                                        project_repo=None, git_repo=None))
            got = sorted(k for k, v in job.author_bypass.items() if v)
            want = sorted(listed)
            ctx.evaluations += 1
            ctx.count('per_author_grants:%d_authors' % len(cfg))
            if relevant is not None:
                got = [g for g in got if g in relevant]
                want = [w for w in want if w in relevant]
            if got != want:
                ctx.violation({'pr_author_options': cfg, 'author': user}, want, got,
                              'per-author settings: the grants in effect for an author are not the ones listed for him',
                              key=core.canon({'what': 'per-author grants', 'extra': sorted(set(got) - set(want)),
                                              'missing': sorted(set(want) - set(got))}))
