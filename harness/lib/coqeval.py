"""Cross-evaluation of the extraction inside Coq (DESIGN section 6).

A sample of the requests the extracted binary answered during the run is turned into Gallina terms and evaluated by
the kernel's own evaluator (`vm_compute`) on the Coq definitions themselves: for every sampled request the file
contains   Example x_i : <call> = <what the binary answered>. Proof. vm_compute. reflexivity. Qed.
If extraction, the OCaml compiler or the hand-written driver (parsing of the request, printing of the answer) disagree
with Coq on one of them, the file does not compile and the check reports the request.

Covered request kinds (shared Git / Flow / Gate / Pipeline layer): merge, anc, incl, insync, isneeded, miops, aqops,
uiops, pipe.  `pushall` / `pushnames` answers are printed sorted by the driver and are not cross-evaluated.
"""
import os
import re

from . import core

IMPORTS = ('From Coq Require Import List String Bool Arith.\n'
           'Require Import BertE.Model.Git BertE.Model.Flow BertE.Model.Gate BertE.Model.Pipeline.\n'
           'Import ListNotations.\nOpen Scope string_scope.\nOpen Scope list_scope.\n')

KINDS = ('merge', 'anc', 'incl', 'insync', 'isneeded', 'miops', 'aqops', 'uiops', 'pipe')


def _split(c, s):
    return [] if s in ('-', '') else s.split(c)


def _nat_list(s, c=','):
    return '[' + '; '.join(str(int(x)) for x in _split(c, s)) + ']'


def _store(s):
    if s == '-':
        return '[]'
    return '[' + '; '.join('mkCommit %s false' % _nat_list(ps) for ps in s.split(';')) + ']'


def _refs(s):
    return '[' + '; '.join('(%d, %d)' % tuple(int(x) for x in kv.split(':')) for kv in _split(',', s)) + ']'


def _pairs(s):
    return _refs(s)


def _triples(s):
    out = []
    for t in _split(',', s):
        q, w, qi = (int(x) for x in t.split(':'))
        out.append('((%d, %d), %d)' % (q, w, qi))
    return '[' + '; '.join(out) + ']'


STRAT = {'O': 'Octopus', 'R': 'OctopusRev', 'C': 'Consecutive', 'K': 'ConsecutiveRev'}


def _strats(sg):
    return '[' + '; '.join(STRAT[c] for c in ('' if sg == '-' else sg)) + ']'


def _bool(w):
    return 'true' if w == '1' else 'false'


def _ops(ans):
    out = []
    for o in _split(';', ans):
        d, ss = o.split(':')
        out.append('mkOp %d %s' % (int(d), _nat_list(ss, '+')))
    return '[' + '; '.join(out) + ']'


def _coq_string(s):
    return '"' + s.replace('"', '""') + '"'


def _ans(tok):
    if tok == 'K':
        return 'AOk'
    if tok in ('T', 'F'):
        return 'AB %s' % ('true' if tok == 'T' else 'false')
    m = re.match(r'^N(\d+):([01])$', tok)
    if m:
        return 'AN %d %s' % (int(m.group(1)), _bool(m.group(2)))
    m = re.match(r'^R([TSIO]):(.*)$', tok)
    if m:
        kind = {'T': 'ETemplate', 'S': 'ESilent', 'I': 'EInternal'}.get(m.group(1), 'EOther')
        return 'ARaise %s %s' % (kind, _coq_string(m.group(2)))
    return 'AMissing'


def to_example(req, ans):
    """(lhs, rhs) Gallina terms for one request / answer pair, or None when the kind is not covered."""
    w = [x for x in req.split(' ') if x]
    k = w[0]
    if ans.startswith('ERR'):
        return None
    if k == 'merge' and len(w) == 4:
        lhs = 'git_merge %s %d %s' % (_store(w[1]), int(w[2]), _nat_list(w[3]))
        if ans == 'U':
            rhs = 'UpToDate'
        elif ans.startswith('F '):
            rhs = 'FastForward %d' % int(ans[2:])
        elif ans.startswith('M'):
            rhs = 'Merged %s' % _nat_list(ans[1:].strip())
        else:
            return None
        return lhs, rhs
    if k == 'anc' and len(w) == 4:
        return 'anc %s %d %d' % (_store(w[1]), int(w[2]), int(w[3])), _bool(ans)
    if k == 'incl' and len(w) == 4:
        return 'incl_b (mkClone %s %s) %s' % (_store(w[1]), _refs(w[2]), _pairs(w[3])), _bool(ans)
    if k == 'insync' and len(w) == 5:
        return 'check_in_sync (mkClone %s %s) %d %s' % (_store(w[1]), _refs(w[2]), int(w[3]), _nat_list(w[4])), _bool(ans)
    if k == 'isneeded' and len(w) == 7 and len(w[3]) == 4:
        f = [_bool(c) for c in w[3]]
        return ('is_needed %s %s %s %s (mkClone %s %s) %d %d %s' % (
            f[0], f[1], f[2], f[3], _store(w[1]), _refs(w[2]), int(w[4]), int(w[5]), _pairs(w[6])), _bool(ans))
    if k == 'miops' and len(w) == 3:
        return 'merge_integration_ops %s %s' % (_strats(w[1]), _pairs(w[2])), _ops(ans)
    if k == 'aqops' and len(w) == 3:
        return 'add_to_queue_ops %s %s' % (_strats(w[1]), _triples(w[2])), _ops(ans)
    if k == 'uiops' and len(w) == 4:
        return 'update_ops %s %d %s' % (_strats(w[1]), int(w[3]), _pairs(w[2])), _ops(ans)
    if k == 'pipe' and len(w) == 4 and len(w[2]) == 3:
        h = {'O': 'HOuter', 'I': 'HInner', 'C': 'HCommit'}.get(w[1], 'HQueues')
        cfg = '{| use_queue := %s; declined := %s; robot_authored := %s |}' % tuple(_bool(c) for c in w[2])
        answers = '[' + '; '.join(_ans(t) for t in _split(';', w[3])) + ']'
        names, _, out = ans.rpartition('|')
        outc = 'OReturn' if out == 'RET' else 'OBad' if out == 'BAD' else 'ORaise %s' % _coq_string(out[2:])
        rhs = '([%s], %s)' % ('; '.join(_coq_string(n) for n in _split(',', names)), outc)
        return 'run_handler %s %s %s' % (h, cfg, answers), rhs
    return None


def crosscheck(ctx, pairs, tag=None, limit=240):
    """pairs: [(request line, answer line)] as exchanged with the binary.  Returns the number evaluated in Coq."""
    seen, items = set(), []
    per_kind = {}
    for req, ans in pairs:
        k = req.split(' ', 1)[0]
        if k not in KINDS or (req, ans) in seen or len(req) > 6000:
            continue
        if per_kind.get(k, 0) >= max(8, limit // len(KINDS)):
            continue
        ex = to_example(req, ans)
        if ex is None:
            continue
        seen.add((req, ans))
        per_kind[k] = per_kind.get(k, 0) + 1
        items.append((req, ans, ex))
        if len(items) >= limit:
            break
    if not items:
        return 0
    d = os.path.join(core.BUILD, 'cross', tag or ctx.pid)
    os.makedirs(d, exist_ok=True)
    lines = ['(* generated by harness/lib/coqeval.py: answers of the extracted binary re-computed by vm_compute *)',
             IMPORTS]
    for i, (_req, _ans, (lhs, rhs)) in enumerate(items):
        lines.append('Example x_%d : (%s) = (%s).\nProof. vm_compute. reflexivity. Qed.' % (i, lhs, rhs))
    path = os.path.join(d, 'cases.v')
    with open(path, 'w') as f:
        f.write('\n'.join(lines) + '\n')
    with core.Lock():
        rc, out = core.sh('timeout 600 coqc -Q %s BertE -w -notation-overridden cases.v' % core.COQ, cwd=d)
    for k, n in per_kind.items():
        ctx.count('kernel_crosscheck:' + k, n)
    ctx.extra['kernel_crosscheck'] = {'evaluated_in_coq': len(items), 'ok': rc == 0}
    if rc != 0:
        m = re.search(r'line (\d+)', out)
        idx = None
        if m:
            # header is 2 entries (comment + imports block of 5 lines); every example takes 2 lines
            text = open(path).read().split('\n')
            ln = int(m.group(1))
            for j in range(ln - 1, -1, -1):
                mm = re.match(r'^Example x_(\d+) ', text[j]) if j < len(text) else None
                if mm:
                    idx = int(mm.group(1))
                    break
        bad = items[idx] if idx is not None and idx < len(items) else None
        ctx.mismatch({'request': bad[0][:1500] if bad else None, 'coq_error': out[-1200:]},
                     bad[1] if bad else 'binary', 'vm_compute disagrees (see coq_error)',
                     'extraction cross-check (binary vs Coq kernel evaluation)')
    return len(items)
