"""C10 - monitors, the stub pull request used by the pure correspondence, and the system runner
(long-lived instance against a fresh BertE per job).  Imports and wraps the shared libs; edits none of them.

Monitors (evaluated on the real system / the real functions):
  * third repetition of an evaluation changes nothing (refs, pull requests, comment lists);
  * no comment is posted right after an equal comment of the robot (posting-time reading of "twice in a row");
  * a command handler is entered at most once per command comment (identity of the host's comment object);
  * the dumps of the history run on the long-lived instance and on a fresh BertE per job are equal after every job.
"""
import os
import random
import sys
import time
import traceback
from types import SimpleNamespace

from . import core

ROBOT = 'bert-e'


class HarnessError(Exception):
    pass


# ------------------------------------------------------------------------------ command execution recorder

class ExecRecorder:
    """Records (comment identity, command keyword) every time a registered command handler is entered.
    The comment is the loop variable `comment` of gitwaterflow.handle_comments (read from the caller's frame of
    Reactor.handle_commands); handlers are wrapped in the live registry."""
    installed = None

    def __init__(self):
        self.log = []            # [(uid, keyword)]
        self.current = None
        self.last_read = None
        self.uids = 0

    def ident(self, c):
        obj = getattr(c, 'controlled', c)
        uid = getattr(obj, '_verif_uid', None)
        if uid is None:
            self.uids += 1
            uid = self.uids
            try:
                setattr(obj, '_verif_uid', uid)
            except Exception:
                raise HarnessError('cannot tag comment object %r' % (obj,))
        return uid

    @classmethod
    def install(cls):
        if cls.installed is not None:
            return cls.installed
        from bert_e.reactor import Reactor, Command
        rec = cls()
        orig_hc = Reactor.handle_commands
        # track which comment's text was read last (mock host comments and the stub comments)
        from bert_e.git_host import mock as mockhost
        orig_text = mockhost.CommentController.text

        def tracked_text(self_):
            rec.last_read = self_
            return orig_text.fget(self_)
        mockhost.CommentController.text = property(tracked_text)
        mockhost.CommentController.text_untracked = property(lambda self_: orig_text.fget(self_))
        StubComment.recorder = rec

        def handle_commands(self, job, text, prefix, privileged=False):
            # the comment being handled: the one whose text was read last (the loop reads comment.text and calls
            # handle_commands); fall back on the caller's locals
            c = rec.last_read
            if c is None or getattr(c, 'text_untracked', None) != text:
                fr = sys._getframe(1)
                cands = [v for v in fr.f_locals.values()
                         if hasattr(v, 'author') and getattr(v, 'text', None) == text]
                if len(set(id(v) for v in cands)) != 1:
                    raise HarnessError('handle_commands: cannot tell which comment is being handled')
                c = cands[0]
            rec.current = c
            try:
                return orig_hc(self, job, text, prefix, privileged)
            finally:
                rec.current = None
        Reactor.handle_commands = handle_commands
        for key, cb in list(Reactor.__callbacks__.items()):
            if isinstance(cb, Command):
                def make(key, h):
                    def wrapped(job, *args):
                        if rec.current is None:
                            raise HarnessError('command handler entered outside handle_commands')
                        rec.log.append((rec.ident(rec.current), key))
                        return h(job, *args)
                    wrapped.__name__ = getattr(h, '__name__', key)
                    wrapped.__doc__ = h.__doc__
                    wrapped._verif_orig = h
                    return wrapped
                if not hasattr(cb.handler, '_verif_orig'):
                    Reactor.__callbacks__[key] = cb._replace(handler=make(key, cb.handler))
        cls.installed = rec
        return rec


class FindRecorder:
    """Counts the decisions of find_comment in which startswith matched a comment whose text is not equal to the
    message (the model identifies "same text" with equality of the abstract message)."""
    installed = None

    def __init__(self):
        self.prefix_only = []
        self.decisions = 0

    @classmethod
    def install(cls):
        if cls.installed is not None:
            return cls.installed
        import bert_e.workflow.pr_utils as pu
        rec = cls()
        orig = pu.find_comment

        def find_comment(pull_request, username=None, startswith=None, max_history=None):
            res = orig(pull_request, username=username, startswith=startswith, max_history=max_history)
            if startswith:
                rec.decisions += 1
                if res is not None and res.text != startswith:
                    rec.prefix_only.append((res.text[:60], startswith[:60]))
            return res
        pu.find_comment = find_comment
        import bert_e.workflow.gitwaterflow as gwf
        if getattr(gwf, 'find_comment', None) is orig:
            gwf.find_comment = find_comment
        cls.installed = rec
        return rec


# ------------------------------------------------------------------------------ pure stubs

class StubComment:
    recorder = None

    def __init__(self, author, text, id):
        self.author, self._text, self.id = author, text, id

    @property
    def text(self):
        if StubComment.recorder is not None:
            StubComment.recorder.last_read = self
        return self._text

    @property
    def text_untracked(self):
        return self._text


class StubPR:
    """SimpleNamespace-like pull request with a `.comments` list and `add_comment`."""

    def __init__(self, comments, next_id):
        self.comments = list(comments)
        self.next_id = next_id
        self.author = 'author'
        self.author_display_name = 'author'
        self.id = 1
        self.status = 'OPEN'
        self.src_branch = 'bugfix/TEST-1'
        self.dst_branch = 'development/4.3'
        self.bot_status = []

    def add_comment(self, msg):
        c = StubComment(author=ROBOT, text=msg, id=self.next_id)
        self.next_id += 1
        self.comments.append(c)
        return c

    def set_bot_status(self, status, title, summary):
        self.bot_status.append(status)


USERS = {1: 'author', 2: 'peer'}
UNKNOWN_KW = 'zzz!'                # '@bert-e zzz!': ignored by the option loop, NotFound in the command loop
DENIED_KW = 'bypass_build_status'  # a privileged option used by a non-admin: NotEnoughCredentials (option loop)


class Pure:
    """The real find_comment / _send_comment / notify_user / handle_pull_request on stub pull requests."""

    def __init__(self, fast_render=True):
        import logging
        logging.disable(logging.CRITICAL)
        import bert_e.exceptions as ex
        import bert_e.workflow.gitwaterflow as gwf
        import bert_e.workflow.gitwaterflow.commands as cmds
        import bert_e.workflow.pr_utils as pu
        from bert_e.lib.settings_dict import SettingsDict
        from bert_e.reactor import Reactor
        self.ex, self.gwf, self.cmds, self.pu, self.SettingsDict, self.Reactor = ex, gwf, cmds, pu, SettingsDict, Reactor
        gwf.setup({})
        self.rec = ExecRecorder.install()
        self.orig_render = ex.render
        if fast_render:
            from jinja2 import Environment, FileSystemLoader, StrictUndefined
            from bert_e.lib.template_loader import TEMPLATE_DIR
            env = Environment(loader=FileSystemLoader(str(TEMPLATE_DIR)), undefined=StrictUndefined)
            ex.render = lambda template, **kw: env.get_template(template).render(**kw)
        self.oracle = None
        # the parts of _handle_pull_request that are not about comments are replaced by the oracle
        self.saved = {n: getattr(gwf, n) for n in ('early_checks', 'branch_factory', 'check_dependencies')}
        self.saved_reset = cmds._reset
        gwf.early_checks = self._early
        gwf.branch_factory = lambda repo, name: SimpleNamespace(name=name)
        gwf.check_dependencies = self._rest
        cmds._reset = self._reset
        self.text = {}       # (cls, key, arg) -> text
        self.rev = {}
        self._build_texts()

    def close(self):
        for n, f in self.saved.items():
            setattr(self.gwf, n, f)
        self.cmds._reset = self.saved_reset
        self.ex.render = self.orig_render

    # -- oracle-driven replacements
    def synth(self, cls, arg):
        """An instance of the real class (class attributes intact) with a synthetic fixed-width text."""
        c = getattr(self.ex, cls)
        e = c.__new__(c)
        Exception.__init__(e, self.text_of((cls, '', arg)))
        return e

    def _early(self, job):
        e = self.oracle['early']
        if e == 's':
            raise self.ex.NothingToDo('oracle')
        if e is not None:
            raise self.synth(e[0], e[2])

    def _rest(self, job):
        rest = self.oracle['rest']
        for m in rest[:-1]:
            self.pu.notify_user(job.settings, job.pull_request, self.synth(m[0], m[2]))
        if rest:
            raise self.synth(rest[-1][0], rest[-1][2])
        raise self.ex.NothingToDo('oracle: end of the evaluation')

    def _reset(self, job, force=False):
        r = self.oracle['reset']
        if r is None:
            return
        if r == 'ResetComplete':
            raise self.ex.ResetComplete(couldnt_decline=[], active_options=job.active_options)
        if r == 'LossyResetWarning':
            raise self.ex.LossyResetWarning(active_options=job.active_options)
        raise HarnessError('unknown reset reply %r' % (r,))

    # -- texts
    def text_of(self, m):
        if m not in self.text:
            cls, key, arg = m
            t = '# %s\n\nsynthetic message %03d %s\n' % (cls, arg, key)
            self.text[m] = t
            self.rev[t] = m
        return self.text[m]

    def _learn(self, m, text):
        self.text[m] = text
        self.rev[text] = m

    def user_text(self, kind, v):
        if kind == 'p':
            return 'plain text %d' % v
        return '@%s %s' % (ROBOT, v)

    def job(self, pr, no_comment=False):
        base = {'robot': ROBOT, 'admins': ['admin'], 'no_comment': no_comment, 'interactive': False,
                'send_bot_status': False, 'pr_author_options': {}, 'frontend_url': ''}
        settings = self.SettingsDict({}, base)
        return _JobNS(pull_request=pr, settings=settings, project_repo=None,
                      bert_e=SimpleNamespace(settings=SimpleNamespace(frontend_url=''),
                                             client=SimpleNamespace(login=ROBOT)),
                      git=SimpleNamespace(cascade=None, repo=None, src_branch=None, dst_branch=None))

    def _build_texts(self):
        """Render, with the real code, the text of every message the real handlers produce in the stub world."""
        ex = self.ex
        self.oracle = {'early': None, 'reset': 'ResetComplete', 'rest': []}
        pr = StubPR([], 0)
        self.run_eval(pr)
        self._learn(('InitMessage', '', 0), pr.comments[0].text)
        for kw, cls in (('help', 'HelpMessage'), ('status', 'StatusReport'), ('build', 'CommandNotImplemented'),
                        ('reset', 'ResetComplete')):
            pr = StubPR([StubComment(author=ROBOT, text='x', id=0),
                         StubComment(author='author', text=self.user_text('c', kw), id=1)], 2)
            self.run_eval(pr)
            self._learn((cls, '', 0), pr.comments[-1].text)
        self.oracle['reset'] = 'LossyResetWarning'
        pr = StubPR([StubComment(author=ROBOT, text='x', id=0),
                     StubComment(author='author', text=self.user_text('c', 'reset'), id=1)], 2)
        self.run_eval(pr)
        self._learn(('LossyResetWarning', '', 0), pr.comments[-1].text)
        for k, name in USERS.items():
            for kw, cls in ((UNKNOWN_KW, 'UnknownCommand'), (DENIED_KW, 'NotEnoughCredentials')):
                pr = StubPR([StubComment(author=ROBOT, text='x', id=0),
                             StubComment(author=name, text=self.user_text('c', kw), id=1)], 2)
                self.run_eval(pr)
                if len(pr.comments) != 3:
                    raise HarnessError('could not render %s' % cls)
                self._learn((cls, kw, k), pr.comments[-1].text)
        self.rec.log.clear()

    # -- comment encoding:  ('r', cls, key, arg) | ('u', k, 'p', t) | ('u', k, 'c', kw) | ('u', k, 'm', cls, key, arg)
    def make_pr(self, comments, next_id=None):
        cl = []
        for i, c in enumerate(comments):
            if c[0] == 'r':
                cl.append(StubComment(author=ROBOT, text=self.text_of((c[1], c[2], c[3])), id=i))
            elif c[2] == 'm':
                cl.append(StubComment(author=USERS[c[1]], text=self.text_of((c[3], c[4], c[5])), id=i))
            else:
                cl.append(StubComment(author=USERS[c[1]], text=self.user_text(c[2], c[3]), id=i))
        return StubPR(cl, len(cl) if next_id is None else next_id)

    def decode(self, text):
        m = self.rev.get(text)
        return ('m',) + m if m is not None else ('?', text[:50])

    def run_eval(self, pr, no_comment=False):
        """One real handle_pull_request; returns (ids of the comments whose command handler ran, appended)."""
        before = len(pr.comments)
        self.rec.log.clear()
        job = self.job(pr, no_comment)
        try:
            self.gwf.handle_pull_request(job)
            end = 'return'
        except self.ex.BertE_Exception as e:
            end = type(e).__name__
        ids = {self.rec.ident(c): c.id for c in pr.comments}
        executed = [ids[u] for u, _k in self.rec.log]
        return executed, [self.decode(c.text) for c in pr.comments[before:]], end

    def find(self, comments, username, sw, mh):
        pr = self.make_pr(comments)
        try:
            c = self.pu.find_comment(pr, username=username, startswith=sw, max_history=mh)
        except ValueError:
            return 'valueerror'
        return 'none' if c is None else 'found %d' % c.id

    def send(self, comments, msg, policy, no_comment=False):
        pr = self.make_pr(comments)
        n = len(pr.comments)
        settings = SimpleNamespace(no_comment=no_comment, interactive=False, robot=ROBOT)
        try:
            self.pu._send_comment(settings, pr, self.text_of(msg), policy)
        except self.ex.CommentAlreadyExists:
            return 'suppressed'
        except ValueError:
            return 'valueerror'
        if no_comment:
            return 'notsent' if len(pr.comments) == n else 'posted-despite-no_comment'
        return 'posted' if len(pr.comments) == n + 1 else 'nothing'

    def send_twice(self, text, policy, between=None):
        """The real _send_comment twice in a row on ONE stub pull request: the second call sees what the first
        one actually posted (not what the harness would have written).  Returns the two outcomes and the number of
        comments posted."""
        pr = self.make_pr([])
        settings = SimpleNamespace(no_comment=False, interactive=False, robot=ROBOT)
        outs = []
        for k in range(2):
            n = len(pr.comments)
            try:
                self.pu._send_comment(settings, pr, text, policy)
                outs.append('posted' if len(pr.comments) == n + 1 else 'nothing')
            except self.ex.CommentAlreadyExists:
                outs.append('suppressed')
            except ValueError:
                outs.append('valueerror')
            if k == 0 and between is not None:
                pr.comments.append(StubComment(author=USERS[1], text=between, id=len(pr.comments)))
        return outs, [c.text for c in pr.comments if c.author == ROBOT]

    def notify(self, comments, cls, arg, no_comment=False):
        pr = self.make_pr(comments)
        n = len(pr.comments)
        settings = SimpleNamespace(no_comment=no_comment, interactive=False, robot=ROBOT, send_bot_status=False)
        try:
            self.pu.notify_user(settings, pr, self.synth(cls, arg))
        except ValueError:
            return 'error'
        return 'posted' if len(pr.comments) == n + 1 else 'quiet'


class _JobNS(SimpleNamespace):
    @property
    def active_options(self):
        return [key for key, val in self.settings.maps[0].items() if val]

    @property
    def author_bypass(self):
        return {}


# ------------------------------------------------------------------------------ settings (C10_instance)

def impl_settings(jobs):
    """The real Reactor.init_settings + option handlers on successive stub jobs of one process; returns what the
    last job reads (registered option keys only)."""
    import bert_e.workflow.gitwaterflow as gwf
    from bert_e.reactor import Reactor, Option
    from bert_e.lib.settings_dict import SettingsDict
    gwf.setup({})
    # a fresh process would re-create the default of the decorated options at import time
    for key, cb in list(Reactor.__callbacks__.items()):
        if isinstance(cb, Option) and isinstance(cb.default, set):
            Reactor.__callbacks__[key] = cb._replace(default=set())
    last = None
    for calls in jobs:
        job = _JobNS(settings=SettingsDict({}, {'robot': ROBOT}),
                     bert_e=SimpleNamespace(client=SimpleNamespace(login=ROBOT)))
        r = Reactor()
        r.init_settings(job)
        for k, a in calls:
            opt = Reactor.__callbacks__[k]
            if a == '':
                opt.handler(job)
            else:
                opt.handler(job, a)
        last = job
    out = []
    for key in Reactor.get_options():
        v = last.settings.maps[0][key]
        out.append('%s=%s' % (key, 'T' if v is True else 'F' if v is False else 'N' if v is None else
                              '{%s}' % ','.join(sorted(v)) if isinstance(v, (set, frozenset)) else '?%r' % (v,)))
    return 'ok ' + ';'.join(out)


# ------------------------------------------------------------------------------ system level

def projection(d):
    """What C10 compares of a world dump: refs, pull requests, comment (author, class) lists."""
    return {'refs': d['refs'],
            'prs': [(p['id'], p['author'], p['src'], p['dst'], p['state']) for p in d['prs']],
            'comments': [(c['pr'], c['by'], c['cls']) for c in d['comments']]}


def diff_projection(a, b):
    out = {}
    for k in ('refs', 'prs', 'comments'):
        if a[k] != b[k]:
            if k == 'refs':
                out[k] = {n: (a[k].get(n), b[k].get(n)) for n in set(a[k]) | set(b[k]) if a[k].get(n) != b[k].get(n)}
            else:
                out[k] = {'first': [x for x in a[k] if x not in b[k]][:6], 'second': [x for x in b[k] if x not in a[k]][:6],
                          'len': (len(a[k]), len(b[k]))}
    return out


def possible_evaluations(world):
    """Every evaluation a webhook could trigger in this state: each pull request, each source / w / q tip."""
    evs = []
    refs = world.refs()
    prs = world.prs()
    for p in prs:
        evs.append({'e': 'job_pr', 'pr': p['id']})
    names = sorted(set(p['src'] for p in prs if p['src'] in refs) |
                   set(n for n in refs if n.startswith('w/') or n.startswith('q/')))
    for n in names:
        evs.append({'e': 'job_commit', 'ref': n})
    return evs


class _StopHistory(Exception):
    pass


class SysRun:
    """One history on one world, with the C10 monitors after every job.  fresh=True: a new BertE per job."""

    def __init__(self, fresh, per_state, inject_seed, p_inject=1.0, max_triples=None):
        self.fresh = fresh
        self.per_state = per_state
        self.p_inject = p_inject
        self.max_triples = max_triples
        self.triples = 0
        self.stop_at = None       # wall-clock limit of the generating run (the history is cut there)
        self.truncated = False
        self.irng = random.Random(inject_seed)
        self.events = []         # the explicit history: generator events + injected evaluations
        self.dumps = []          # projection after every job, in order
        self.statuses = []
        self.violations = []
        self.jobs = 0
        self.hist = {}
        self.nontrivial = set()
        self.world = None
        self.exec_seen = {}      # comment uid -> job index of its execution
        self.snap = None
        self.in_injection = False

    def count(self, k, n=1):
        self.hist[k] = self.hist.get(k, 0) + n

    # --- one job, monitored
    def job(self, world, ev):
        from . import sysworld
        rec = ExecRecorder.install()
        rec.log.clear()
        if self.fresh:
            old = world.berte
            world.berte = world._new_berte()
            try:
                old.git_repo.delete()
            except Exception:
                pass
        items_before = list(world.mock.Comment.items)
        r = world.run_job(ev)
        if ev.get('expect_no_clone'):
            g = world.berte.git_repo
            self.count('scripted:non_cloning_job:%s' % ('confirmed' if g.cmd_directory == g.tmp_directory
                                                       else 'CLONED'))
            self.count('scripted:%s:%s' % (ev.get('kind_label', '?'), r.get('status')))
            self.nontrivial.add('scripted:%s:%s' % (ev.get('kind_label', '?'), r.get('status')))
        drained = world.drain()
        self.jobs += 1
        idx = self.jobs
        self.count('status:%s' % r.get('status'))
        # posting-time monitor: a new robot comment right after an equal robot comment of the same pull request
        seen = set(id(c) for c in items_before)
        per_pr = {}
        for c in world.mock.Comment.items:
            per_pr.setdefault(c.pull_request_id, []).append(c)
        for pr_id, cl in per_pr.items():
            for i, c in enumerate(cl):
                if id(c) in seen or i == 0:
                    continue
                p = cl[i - 1]
                if c.user['username'] == ROBOT and p.user['username'] == ROBOT and \
                        c.content['raw'] == p.content['raw']:
                    self.violations.append({'monitor': 'no_repeat', 'job_index': idx, 'event': ev, 'detail': {
                        'what': 'the same message was posted twice in a row', 'pr': pr_id,
                        'class': sysworld.message_class(c.content['raw'])}})
        # command handlers: at most once per command comment
        for uid, key in rec.log:
            self.count('command:%s' % key)
            self.nontrivial.add('exec:%s' % key)
            if uid in self.exec_seen:
                self.violations.append({'monitor': 'once', 'job_index': idx, 'event': ev, 'detail': {
                    'what': 'a command comment was executed by more than one evaluation', 'command': key,
                    'first_job': self.exec_seen[uid]}})
            else:
                self.exec_seen[uid] = idx
        rec.log.clear()
        d = projection(world.dump())
        self.dumps.append(d)
        self.statuses.append(r.get('status'))
        return r, d, len(drained)

    # --- repeated evaluation
    def triple(self, world, ev):
        prev = None
        for rep in (1, 2, 3):
            e = dict(ev)
            e['rep'] = rep
            self.events.append(e)
            r, d, _n = self.job(world, e)
            if rep == 3 and prev is not None and d != prev:
                self.violations.append({'monitor': 'converge', 'job_index': self.jobs, 'event': e, 'detail': {
                    'what': 'the third repetition of an evaluation still changed the state',
                    'diff': diff_projection(prev, d), 'status': r.get('status')}})
            if rep == 3:
                self.nontrivial.add('triple:%s:%s' % (ev['e'], r.get('status')))
            prev = d

    def after_event(self, world):
        self.count('states')
        if self.irng.random() >= self.p_inject:
            return
        evs = possible_evaluations(world)
        self.count('states_with_repeated_evaluations')
        self.count('possible_evaluations', len(evs))
        if self.per_state is not None and len(evs) > self.per_state:
            evs = self.irng.sample(evs, self.per_state)
        for ev in evs:
            if self.max_triples is not None and self.triples >= self.max_triples:
                return
            self.triples += 1
            self.count('repeated:%s' % ev['e'])
            self.triple(world, ev)

    # --- drive
    def generate(self, seed, length, lifecycle):
        from . import histories
        me = self
        orig = histories.run_history

        def run_history(world, events, on_job=None, on_event=None, **_kw):
            log = []
            for ev in events:
                me.world = world
                if me.stop_at is not None and time.time() > me.stop_at:
                    me.truncated = True
                    raise _StopHistory()
                if ev['e'].startswith('job_'):
                    me.events.append(ev)
                    r, _d, _n = me.job(world, ev)
                    log.append({'ev': ev, 'status': r['status']})
                else:
                    me.events.append(ev)
                    try:
                        res = world.apply(ev)
                    except Exception as exc:
                        res = {'skipped': str(exc)[:200]}
                    log.append({'ev': ev, 'res': res})
                me.after_event(world)
            return log
        histories.run_history = run_history
        cfg = {}
        orig_world = histories.sysworld.World

        def world_factory(c=None, scratch=None):
            cfg.update(c or {})
            return orig_world(c, scratch)
        histories.sysworld.World = world_factory
        try:
            if lifecycle:
                histories.lifecycle_and_run(seed, n_prs=2 if length <= 8 else None)
            else:
                histories.generate_and_run(seed, length=length)
        except _StopHistory:
            pass
        finally:
            histories.run_history = orig
            histories.sysworld.World = orig_world
        return {'cfg': dict(cfg), 'events': self.events, 'seed': seed}

    def replay(self, history):
        from . import sysworld
        world = sysworld.World(history['cfg'])
        try:
            prev = None
            for ev in history['events']:
                self.events.append(ev)
                if ev['e'].startswith('job_'):
                    r, d, _n = self.job(world, ev)
                    if ev.get('rep') == 3 and prev is not None and d != prev:
                        self.violations.append({'monitor': 'converge', 'job_index': self.jobs, 'event': ev, 'detail': {
                            'what': 'the third repetition of an evaluation still changed the state',
                            'diff': diff_projection(prev, d), 'status': r.get('status')}})
                    prev = d
                else:
                    try:
                        world.apply(ev)
                    except Exception:
                        pass
                    prev = None
        finally:
            world.close()


SCRIPT_CFG = {'layout': [[4, 3, None, []], [5, 1, None, []], [10, 0, None, []]], 'use_queue': True,
              'skip_queue': False, 'no_octopus': False, 'peers': 0, 'leaders': 0, 'need_author': False,
              'build_key': 'pre-merge', 'always_prs': True, 'always_branches': True, 'cmd_line_options': []}


def scripted_histories():
    """Scripted family 'state kept between jobs': for every kind of job that ends after the remote heads were
    listed but before the repository is cloned, [that job] -> a change made from outside (a push on the source
    branch / a commit on an integration branch / a new pull request branch) -> the commit event for the new tip
    (and the pull request event).  Run on the long-lived instance and with a fresh BertE per job like every
    other history: an instance that keeps anything from the earlier job answers differently."""
    src, dst, w = 'bugfix/TEST-1', 'development/4.3', 'w/5.1/bugfix/TEST-1'
    kinds = {
        'help': [{'e': 'comment', 'user': 'author', 'pr': 1, 'text': '@bert-e help'}],
        'status': [{'e': 'comment', 'user': 'peer', 'pr': 1, 'text': '@bert-e status'}],
        'not_implemented': [{'e': 'comment', 'user': 'author', 'pr': 1, 'text': '@bert-e retry'}],
        'unknown_command': [{'e': 'comment', 'user': 'author', 'pr': 1, 'text': '@bert-e frobnicate'}],
        'denied_option': [{'e': 'comment', 'user': 'author', 'pr': 1, 'text': '@bert-e bypass_build_status'}],
        'wait': [{'e': 'comment', 'user': 'author', 'pr': 1, 'text': '@bert-e wait'}],
        'after_pull_request': [{'e': 'comment', 'user': 'author', 'pr': 1, 'text': '@bert-e after_pull_request=2'}],
        'commit_without_pull_request': [],
    }
    # comments that keep blocking the pull request are deleted again before the outside change
    blocking = ('unknown_command', 'denied_option', 'wait', 'after_pull_request')
    res = []
    for kind, pre in kinds.items():
        n = [0]

        def label():
            n[0] += 1
            return 's%d' % n[0]

        def quiet_job():
            evs = list(pre)
            if kind == 'commit_without_pull_request':
                evs.append({'e': 'job_commit', 'ref': 'development/10.0', 'expect_no_clone': True, 'kind_label': kind})
            else:
                evs.append({'e': 'job_pr', 'pr': 1, 'expect_no_clone': True, 'kind_label': kind})
            if kind in blocking:
                evs.append({'e': 'delete_comment', 'user': 'author', 'pr': 1, 'idx': -1})
            return evs
        ev = [{'e': 'create_pr', 'src': src, 'dst': dst, 'label': label()},
              {'e': 'create_pr', 'src': 'feature/TEST-2', 'dst': 'development/10.0', 'label': label()},
              {'e': 'job_pr', 'pr': 1}]
        # (1) a push on the source branch, then the commit event of the new tip, then the pull request event
        ev += quiet_job()
        ev += [{'e': 'push', 'branch': src, 'label': label()}, {'e': 'job_commit', 'ref': src}, {'e': 'job_pr', 'pr': 1}]
        # (2) a commit on an integration branch
        ev += quiet_job()
        ev += [{'e': 'push', 'branch': w, 'label': label(), 'as': 'author'}, {'e': 'job_commit', 'ref': w},
               {'e': 'job_pr', 'pr': 1}]
        # (3) a new pull request branch
        ev += quiet_job()
        ev += [{'e': 'create_pr', 'src': 'bugfix/TEST-3', 'dst': 'development/5.1', 'label': label()},
               {'e': 'job_commit', 'ref': 'bugfix/TEST-3'}, {'e': 'job_pr', 'pr': 5}]
        # (4) the pull request event alone after a push (no commit event)
        ev += quiet_job()
        ev += [{'e': 'push', 'branch': src, 'label': label()}, {'e': 'job_pr', 'pr': 1}]
        res.append({'cfg': dict(SCRIPT_CFG), 'events': ev, 'family': 'scripted:' + kind})
    return res


def history_pair(args):
    """Worker: the same history on the long-lived instance and with a fresh BertE per job."""
    seed, length, per_state, replay_history, p_inject, max_triples, deadline, a_limit = args
    os.environ['PYTHONHASHSEED'] = '0'
    if deadline is not None and time.time() > deadline:
        return {'seed': seed, 'skipped': True}
    out = {'seed': seed, 'jobs': 0, 'violations': [], 'mismatch': [], 'hist': {}, 'nontrivial': [],
           'history': None, 'error': None, 'wall': 0.0, 'prefix_only': 0, 'find_decisions': 0}
    t0 = time.time()
    try:
        FindRecorder.install()
        ExecRecorder.install()
        a = SysRun(False, per_state, seed * 7 + 1, p_inject, max_triples)
        if a_limit:
            a.stop_at = time.time() + a_limit
        if replay_history is not None:
            a.replay(replay_history)
            h = replay_history
        else:
            h = a.generate(seed, length, seed % 2 == 1)
        out['history'] = h
        b = SysRun(True, None, 0)
        b.replay({'cfg': h['cfg'], 'events': h['events']})
        out['jobs'] = a.jobs + b.jobs
        if a.truncated:
            a.count('histories_cut_at_time_limit')
        out['hist'] = a.hist
        out['nontrivial'] = sorted(a.nontrivial)
        out['violations'] = a.violations + [v for v in b.violations
                                            if (v['monitor'], v['job_index']) not in
                                            set((x['monitor'], x['job_index']) for x in a.violations)]
        for i, (da, db) in enumerate(zip(a.dumps, b.dumps)):
            if da != db or a.statuses[i] != b.statuses[i]:
                jobs_evs = [e for e in h['events'] if e['e'].startswith('job_')]
                out['violations'].append({'monitor': 'instance', 'job_index': i + 1,
                                          'event': jobs_evs[i] if i < len(jobs_evs) else {'e': '?'}, 'detail': {
                    'what': 'the outcome of an evaluation differs between the long-lived instance and a fresh one',
                    'diff': diff_projection(da, db), 'status': (a.statuses[i], b.statuses[i])}})
                break
        if len(a.dumps) != len(b.dumps):
            out['mismatch'].append({'function': 'history-replay-length', 'input': {'seed': seed},
                                    'impl': len(a.dumps), 'model': len(b.dumps)})
        fr = FindRecorder.installed
        out['prefix_only'] = len(fr.prefix_only)
        out['find_decisions'] = fr.decisions
        fr.prefix_only.clear()
        fr.decisions = 0
    except Exception:
        out['error'] = traceback.format_exc()[-2500:]
    out['wall'] = time.time() - t0
    if not out['violations'] and not out['mismatch'] and not out['error'] and out['history']:
        out['history'] = {'cfg': out['history']['cfg'], 'n_events': len(out['history']['events'])}
    return out
