"""C12 - implementation drivers and statement-level monitors.

Pure part: the real handle_pull_request / _handle_pull_request on a stub job (no git, no host).
System part: life-cycle histories of the real Bert-E on harness/lib/sysworld.py with a hold added and lifted at
every position, the monitors of the statement after every job, the hold-free twin run, and the abstraction of a
real history into the events of coq/Model/Holds.v.

Nothing here looks at the model to decide what is right: the monitors are written from the statement
  "A pull request that carries a `wait` comment, or an `after_pull_request` dependency that is not merged yet, or
   that is already merged or closed, or whose source or destination is not a branch Bert-E handles [...] never gets
   integration branches, queue entries or merges [...]; pull requests Bert-E does not handle get no comment at
   all.  As soon as the hold is lifted [...] the next evaluation proceeds normally."
"""
import os
import re
import time
import traceback
from types import SimpleNamespace

from . import core

ROBOT, ADMIN, AUTHOR, PEER = 'bert-e', 'admin', 'author', 'peer'

GATE_CLASSES = ('NotMyJob', 'WrongDestination', 'AfterPullRequest', 'IncorrectPullRequestNumber', 'UnknownCommand',
                'NotEnoughCredentials', 'NotAuthor', 'IncorrectCommandSyntax', 'HelpMessage', 'StatusReport',
                'CommandNotImplemented', 'UnrecognizedBranchPattern')


def hx(s):
    return 'x' + s.encode('latin-1').hex()


def hlist(l):
    return ','.join(hx(x) for x in l) or '-'


# =========================================================================================== pure driver

class ReachedRest(Exception):
    """The stub repository was touched: the program is past clone_git_repo and past the DECLINED branch."""


class EnteredDeclined(Exception):
    """handle_declined_pull_request was entered."""


class StubReset(Exception):
    pass


class _StubRepo:
    def __init__(self, existing):
        self._existing = set(existing)

    def remote_branch_exists(self, name):
        return name in self._existing

    def __getattr__(self, name):
        raise ReachedRest(name)


class StubPR:
    def __init__(self, pid, status, src, dst, author, comments):
        self.id = pid
        self.status = status
        self.src_branch, self.dst_branch = src, dst
        self.author = author
        self.author_display_name = author
        self.comments = [SimpleNamespace(author=a, text=t, id=i) for i, (a, t) in enumerate(comments)]
        self.posted = []

    def add_comment(self, msg):
        self.comments.append(SimpleNamespace(author=ROBOT, text=msg, id=len(self.comments)))
        self.posted.append(msg)

    def set_bot_status(self, *a, **k):
        pass


class Pure:
    """Drives the real handle_pull_request on stub jobs.  Patches (harness process only): clone_git_repo -> records
    the call; handle_declined_pull_request -> sentinel; notify_user -> records the message class, then the real
    one; exceptions.render -> one cached jinja2 environment (same templates, StrictUndefined)."""

    def __init__(self, fast_render=True):
        import logging
        logging.getLogger('bert_e').setLevel(logging.CRITICAL + 1)
        import bert_e.workflow.gitwaterflow as gwf
        from bert_e.workflow.gitwaterflow import commands
        from bert_e import exceptions as ex
        from bert_e.job import Job
        from bert_e.lib.settings_dict import SettingsDict
        self.gwf, self.ex, self.SettingsDict, self.commands = gwf, ex, SettingsDict, commands
        gwf.setup({})
        self.saved = [(gwf, 'clone_git_repo', gwf.clone_git_repo),
                      (gwf, 'handle_declined_pull_request', gwf.handle_declined_pull_request),
                      (gwf, 'notify_user', gwf.notify_user), (ex, 'render', ex.render),
                      (commands, '_reset', commands._reset)]
        self.cloned = False
        self.notified = []
        real_notify = gwf.notify_user

        def clone(job):
            self.cloned = True

        def declined(job):
            raise EnteredDeclined()

        def notify(settings, pull_request, comment):
            n = len(pull_request.posted)
            real_notify(settings, pull_request, comment)
            self.notified.append((type(comment).__name__, len(pull_request.posted) > n))

        def _reset(job, force=False):
            raise StubReset()
        gwf.clone_git_repo = clone
        gwf.handle_declined_pull_request = declined
        gwf.notify_user = notify
        commands._reset = _reset
        if fast_render:
            from jinja2 import Environment, FileSystemLoader, StrictUndefined
            from bert_e.lib.template_loader import TEMPLATE_DIR
            env = Environment(loader=FileSystemLoader(str(TEMPLATE_DIR)), undefined=StrictUndefined)
            ex.render = lambda template, **kw: env.get_template(template).render(**kw)

        class StubJob:
            active_options = Job.__dict__['active_options']
        self.StubJob = StubJob

    def close(self):
        for obj, name, orig in self.saved:
            setattr(obj, name, orig)

    def run(self, case):
        """case: status, src, dst, author, comments [(author, text)], existing [branch names], table {id: status}.
        Returns the canonical observation of one real handle_pull_request call."""
        table = {int(k): v for k, v in case['table'].items()}
        pr = StubPR(1, case['status'], case['src'], case['dst'], case['author'], case['comments'])

        def get_pull_request(pull_request_id):
            if type(pull_request_id) != int or pull_request_id not in table:
                raise Exception('Did not find this pr')
            return SimpleNamespace(id=pull_request_id, status=table[pull_request_id])
        job = self.StubJob()
        job.settings = self.SettingsDict({}, {'robot': ROBOT, 'admins': [ADMIN], 'no_comment': False,
                                              'interactive': False, 'send_bot_status': False, 'use_queue': True})
        job.bert_e = SimpleNamespace(client=SimpleNamespace(login=ROBOT), settings=SimpleNamespace(frontend_url=''))
        job.pull_request = pr
        job.project_repo = SimpleNamespace(get_pull_request=get_pull_request)
        job.git = SimpleNamespace(repo=_StubRepo(case['existing']), cascade=None, src_branch=None, dst_branch=None)
        self.cloned, self.notified = False, []
        call = '-'
        try:
            self.gwf.handle_pull_request(job)
            fate = 'Returned'
        except ReachedRest:
            fate = 'Continues'
        except EnteredDeclined:
            fate = 'Declined'
        except StubReset:
            fate = 'Stopped:handle_comments:Reset'
        except Exception as e:
            names = []
            tb = e.__traceback__
            while tb:
                names.append(tb.tb_frame.f_code.co_name)
                tb = tb.tb_next
            if '_handle_pull_request' in names:
                i = names.index('_handle_pull_request')
                call = names[i + 1] if i + 1 < len(names) else '_handle_pull_request'
            fate = 'Stopped:%s:%s' % (call, type(e).__name__)
        s = job.settings.maps[0].get('after_pull_request')
        order = list(s) if isinstance(s, (set, frozenset)) else None
        posted = [c for c, did in self.notified if did]
        return {'fate': fate, 'cloned': self.cloned, 'greeted': 'InitMessage' in posted,
                'posted': posted, 'n_posted': len(pr.posted), 'order': order}


def encode_eval(case, order=None):
    tbl = ','.join('%d:%s' % (int(k), hx(v)) for k, v in sorted(case['table'].items(), key=lambda kv: int(kv[0]))) or '-'
    return 'eval %s %s - %d %s %s %s %s %s %s %s' % (
        hx(ROBOT), hlist([ADMIN]), case['dst'] in case['existing'], tbl,
        hlist(order) if order else '-', hx(case['status']), hx(case['src']), hx(case['dst']), hx(case['author']),
        ' '.join(hx(a) + ':' + hx(t) for a, t in case['comments']))


def parse_eval(ans):
    w = ans.split(' ')
    if w[0] == 'ERR' or len(w) < 3:
        return {'error': ans}
    d = {'greeted': w[0] == '1', 'fate': w[1]}
    for kv in w[2:]:
        k, v = kv.split('=', 1)
        d[k] = v
    return d


def compare_pure(case, obs, m):
    """(mismatches, violations) of one pure case: implementation vs model, implementation vs specification."""
    mism, viol = [], []
    if 'error' in m:
        return [('model error', obs['fate'], m['error'])], []
    # ---- correspondence ------------------------------------------------------------------------------------------
    if obs['fate'] != m['fate']:
        mism.append(('fate', obs['fate'], m['fate']))
    if obs['greeted'] != m['greeted']:
        mism.append(('greeted', obs['greeted'], m['greeted']))
    if m['fate'].startswith('Stopped:') and obs['cloned']:
        mism.append(('cloned before the gate raised', True, False))
    if m['fate'] in ('Continues', 'Declined') and not obs['cloned']:
        mism.append(('cloned', False, True))
    if m['fate'].startswith('Stopped:') and m['notified'] in ('0', '1'):
        cls = m['fate'].split(':')[2]
        told = [c for c in obs['posted'] if c != 'InitMessage']
        if (told == [cls]) != (m['notified'] == '1') or (m['notified'] == '0' and told):
            mism.append(('message posted', told, cls if m['notified'] == '1' else None))
    # ---- the statement -------------------------------------------------------------------------------------------
    v = m['verdict']
    if v in ('VUntouched', 'VLeftAlone') and obs['fate'] in ('Continues', 'Returned'):
        viol.append(('a held / finished / foreign pull request is not evaluated past the gates', obs['fate'],
                     'the evaluation goes on to the repository work'))
    if v == 'VUntouched' and (obs['n_posted'] or obs['cloned']):
        viol.append(('no comment at all on a pull request Bert-E does not handle',
                     {'posted': obs['posted'], 'cloned': obs['cloned']}, 'comment posted / repository cloned'))
    if v == 'VFree' and case.get('plain') and case['dst'] in case['existing'] and obs['fate'] != 'Continues':
        viol.append(('without a hold the evaluation proceeds', obs['fate'], 'stopped without a hold'))
    return mism, viol


# =========================================================================================== system histories

LAYOUTS = [
    [[4, 3, None, []], [5, 1, None, []]],
    [[4, 3, None, []], [5, 1, None, []], [10, 0, None, []]],
    [[4, 3, 18, []], [5, 1, None, []]],
    [[5, 1, None, []]],
]

# kind -> (template of the comment text, roles of the other pull requests it names, roles that make it hold)
HOLD_KINDS = {
    'none': ('', [], None),
    'wait': ('@bert-e wait', [], 'always'),
    'wait_slash': ('/wait', [], 'always'),
    'apr_open': ('@bert-e after_pull_request={open}', ['open'], ['open']),
    'apr_declined': ('@bert-e after_pull_request={declined}', ['declined'], ['declined']),
    'apr_merged': ('@bert-e after_pull_request={merged}', ['merged'], []),
    'apr_unknown': ('@bert-e after_pull_request=99', [], 'always'),
    'apr_nonnumeric': ('@bert-e after_pull_request=abc', [], []),
    'several_merged_open': ('@bert-e after_pull_request={merged} after_pull_request={open}', ['merged', 'open'],
                            ['open']),
    'several_open_unknown': ('@bert-e after_pull_request={open} after_pull_request=98', ['open'], 'always'),
    'wait_and_apr': ('@bert-e wait after_pull_request={open}', ['open'], 'always'),
}


def hold_word(kind):
    return 'wait' if 'wait' in kind else 'after_pull_request'


def versions(layout):
    return ['%d.%d' % (l[0], l[1]) if l[1] is not None else '%d' % l[0] for l in layout]


def make_history(spec):
    """spec: layout (index), mode, dst_index, hold, add (0..4), lift (None | position >= add), lift_by
    ('delete' | 'merge_dep'), peers.  Returns a replayable history {'cfg', 'events', 'c12'}."""
    layout = LAYOUTS[spec['layout']]
    vs = versions(layout)
    di = min(spec.get('dst_index', 0), len(vs) - 1)
    dst = 'development/' + vs[di]
    later = vs[di + 1:]
    mode = spec['mode']
    cfg = {'layout': layout, 'use_queue': mode != 'noqueue', 'skip_queue': mode == 'skip', 'no_octopus': False,
           'peers': spec.get('peers', 0), 'leaders': 0, 'need_author': False, 'build_key': 'pre-merge',
           'always_prs': spec.get('always_prs', True), 'always_branches': True, 'cmd_line_options': []}
    text_t, roles, holding = HOLD_KINDS[spec['hold']]
    ids, events = {'subject': 1}, []
    srcs = {1: 'bugfix/TEST-1'}
    events.append({'e': 'create_pr', 'src': srcs[1], 'dst': dst, 'label': 'c1'})
    for role in ('open', 'declined', 'merged'):
        if role in roles:
            i = len(ids) + 1
            ids[role] = i
            srcs[i] = 'bugfix/TEST-%d' % i
            events.append({'e': 'create_pr', 'src': srcs[i], 'dst': dst, 'label': 'c%d' % i})
    foreign_id = len(ids) + 1
    events.append({'e': 'create_pr', 'src': 'user/someone', 'dst': dst, 'label': 'cf'})
    if spec.get('peers', 0):
        for i in srcs:
            events.append({'e': 'approve', 'user': PEER, 'pr': i})

    def tips(i):
        return [srcs[i]] + ['w/%s/%s' % (v, srcs[i]) for v in later]

    def qtips(i):
        return ['q/w/%d/%s/%s' % (i, v, srcs[i]) for v in [vs[di]] + later]

    def lifecycle(i, tag):
        ph = [[{'e': 'job_pr', 'pr': i}],
              [{'e': 'build', 'ref': n, 'state': 'SUCCESSFUL'} for n in tips(i)],
              [{'e': 'job_pr', 'pr': i}],
              [{'e': 'build', 'ref': n, 'state': 'SUCCESSFUL'} for n in qtips(i)],
              [{'e': 'job_commit', 'ref': qtips(i)[-1]}]]
        return [[dict(e, c12=tag) for e in p] for p in ph]
    if 'declined' in ids:
        events.append({'e': 'decline', 'pr': ids['declined']})
    if 'merged' in ids:
        for p in lifecycle(ids['merged'], 'setup'):
            events += p
    text = text_t.format(**{k: v for k, v in ids.items()})
    phases = lifecycle(1, 'life')
    add, lift = spec['add'], spec['lift']
    for pos in range(6):
        if spec['hold'] != 'none' and pos == add:
            events.append({'e': 'comment', 'user': spec.get('by', AUTHOR), 'pr': 1, 'text': text, 'c12': 'hold_add'})
            events.append({'e': 'job_pr', 'pr': 1, 'c12': 'hold_eval'})
        if spec['hold'] != 'none' and lift is not None and pos == lift:
            if spec.get('lift_by', 'delete') == 'delete':
                events.append({'e': 'delete_comment', 'user': spec.get('by', AUTHOR), 'pr': 1, 'idx': -1,
                               'c12': 'hold_lift'})
                events.append({'e': 'job_pr', 'pr': 1, 'c12': 'hold_eval'})
            else:
                for p in lifecycle(ids['open'], 'dep'):
                    events += p
                events.append({'e': 'job_pr', 'pr': 1, 'c12': 'hold_eval'})
        if pos < 5:
            events += phases[pos]
    for p in lifecycle(1, 'closing'):
        events += p
    # bystanders: a foreign pull request, the closed one, and the subject once more
    events.append({'e': 'job_pr', 'pr': foreign_id, 'c12': 'bystander'})
    if 'declined' in ids:
        events.append({'e': 'job_pr', 'pr': ids['declined'], 'c12': 'bystander'})
    events.append({'e': 'job_pr', 'pr': 1, 'c12': 'bystander'})
    return {'cfg': cfg, 'events': events, 'seed': spec.get('seed', 0), 'family': 'c12',
            'c12': {'spec': spec, 'ids': ids, 'holding': holding, 'text': text, 'foreign': foreign_id,
                    'srcs': {str(k): v for k, v in srcs.items()}}}


def twin_of(history):
    """The history that never had the hold: the hold comment, its deletion and the evaluations they triggered are
    left out; everything else (life cycle, dependency life cycle, closing, bystanders) stays."""
    ev = [e for e in history['events'] if e.get('c12') not in ('hold_add', 'hold_lift', 'hold_eval')]
    c = dict(history['c12'])
    c['spec'] = dict(c['spec'], hold='none')
    c['holding'] = None
    return {'cfg': history['cfg'], 'events': ev, 'seed': history.get('seed', 0), 'family': 'c12-twin', 'c12': c}


def projection(world, dump):
    prs = {p['id']: p for p in dump['prs']}
    user = sorted(i for i, p in prs.items() if p['author'] != ROBOT)
    return {'refs': dict(dump['refs']),
            'prs': [(i, prs[i]['src'], prs[i]['dst'], prs[i]['state']) for i in sorted(prs)],
            'comments': {i: [(c['by'], c['cls']) for c in dump['comments'] if c['pr'] == i] for i in user}}


HOLD_MESSAGES = ('Waiting for other pull request(s)', 'Incorrect pull request number')


class SysRun:
    """One history on one world, with monitors, model comparison per evaluation and the abstraction of the whole
    history into the events of the model."""

    def __init__(self, history, model=None):
        self.h = history
        self.c = history['c12']
        self.model = model
        self.out = {'jobs': 0, 'violations': [], 'mismatch': [], 'hist': {}, 'nontrivial': [], 'error': None,
                    'statuses': [], 'final': None, 'held_jobs': 0, 'model_events': [], 'abstract': None}
        self.hold_on = False
        self.queued_at_add = False
        self.ucomments = {}          # pr id -> ids of the user comments, oldest first (model's comment list)
        self.mev = []                # abstract events
        self.init_state = None
        self.merged_held = []        # (id, held) per merge, statement-level

    def count(self, k, n=1):
        self.out['hist'][k] = self.out['hist'].get(k, 0) + n

    # ---- statement-level knowledge -------------------------------------------------------------------------------
    def holding(self, dump):
        """Is the subject held in this state (harness knowledge: which comment it wrote, what the host says)?"""
        if not self.hold_on:
            return False
        h = self.c['holding']
        if h == 'always':
            return True
        if not h:
            return False
        st = {p['id']: p['state'] for p in dump['prs']}
        return any(st.get(self.c['ids'][r]) != 'MERGED' for r in h)

    def subject_marks(self, world, dump):
        src = self.c['srcs']['1']
        refs = dump['refs']
        w = sorted(n for n in refs if n.startswith('w/') and n.endswith('/' + src))
        q = sorted(n for n in refs if n.startswith('q/w/1/'))
        child = sorted(p['id'] for p in dump['prs'] if p['src'].startswith('w/') and p['src'].endswith('/' + src))
        state = next(p['state'] for p in dump['prs'] if p['id'] == 1)
        tip = refs.get(src)
        landed = sorted(n for n in refs if re.match(r'^(development|stabilization|hotfix)/', n) and tip
                        and world.is_ancestor(tip, refs[n]))
        return {'w': w, 'q': q, 'children': child, 'state': state, 'landed': landed}

    # ---- callbacks -----------------------------------------------------------------------------------------------
    def on_event(self, world, ev, res):
        tag = ev.get('c12')
        if ev['e'] == 'comment':
            cid = max(c['id'] for c in world.comments(ev['pr']) if c['by'] == ev.get('user', AUTHOR))
            self.ucomments.setdefault(ev['pr'], []).append((cid, ev.get('user', AUTHOR), ev['text']))
            self.mev.append('C:%d:%s:%s' % (ev['pr'], hx(ev.get('user', AUTHOR)), hx(ev['text'])))
        elif ev['e'] == 'delete_comment':
            mine = [k for k, (cid, by, _t) in enumerate(self.ucomments.get(ev['pr'], [])) if by == ev.get('user', AUTHOR)]
            if mine:
                k = mine[ev.get('idx', -1) % len(mine)]
                self.ucomments[ev['pr']].pop(k)
                self.mev.append('D:%d:%d' % (ev['pr'], k))
        if tag == 'hold_add':
            self.hold_on = True
            self.queued_at_add = any(n.startswith('q/w/1/') for n in world.refs())
            self.count('hold_added:%s' % ('queued' if self.queued_at_add else 'not_queued'))
        elif tag == 'hold_lift':
            self.hold_on = False

    def model_eval(self, world, ev, before, rec, after):
        pr = next((p for p in before['prs'] if p['id'] == ev['pr']), None)
        if pr is None or pr['author'] == ROBOT:
            return
        comments = [(c['by'], c['text']) for c in world._c12_comments_before if c['pr'] == pr['id']]
        case = {'status': pr['state'], 'src': pr['src'], 'dst': pr['dst'], 'author': pr['author'],
                'comments': comments, 'existing': list(before['refs']),
                'table': {p['id']: p['state'] for p in before['prs']}}
        m = parse_eval(self.model.batch([encode_eval(case)])[0])
        st = rec.get('status')
        fate = m.get('fate', 'ERR')
        ok = True
        if fate.startswith('Stopped:'):
            ok = st == fate.split(':')[2]
        elif fate == 'Declined':
            ok = st in ('PullRequestDeclined', 'NothingToDo')
        elif fate == 'Continues':
            ok = st not in GATE_CLASSES
        else:
            ok = False
        self.count('model_fate:' + (fate.split(':')[2] if fate.startswith('Stopped:') else fate))
        if not ok:
            self.out['mismatch'].append({'function': 'evaluate (gate prefix) on a system job', 'input': {'event': ev, 'case': case},
                                         'impl': st, 'model': fate})
        new = [c for c in after['comments'] if c['pr'] == pr['id'] and c not in before['comments']]
        greeted = any(c['by'] == ROBOT and c['cls'].startswith('Hello') for c in new)
        if 'greeted' in m and greeted != m['greeted']:
            self.out['mismatch'].append({'function': 'send_greetings on a system job', 'input': {'event': ev, 'case': case},
                                         'impl': greeted, 'model': m['greeted']})
        # statement on the implementation, for this pull request
        v = m.get('verdict')
        refs_same = before['refs'] == after['refs']
        if v == 'VUntouched' and (new or not refs_same):
            self.violation(ev, 'untouched', {'new_comments': [(c['by'], c['cls']) for c in new], 'refs_changed': not refs_same},
                           'a pull request Bert-E does not handle was commented on or refs changed', 'untouched')

    def violation(self, ev, expected, observed, what, key):
        self.out['violations'].append({'event': ev, 'expected': expected, 'detail': dict(observed, what=what),
                                       'key': key, 'job_index': self.out['jobs']})

    def on_job(self, world, ev, before, rec, after):
        self.out['jobs'] += 1
        st = rec.get('status')
        self.out['statuses'].append((ev.get('e'), ev.get('pr', ev.get('ref')), ev.get('c12'), st))
        self.count('status:%s' % st)
        if self.init_state is None:
            self.init_state = before
        held = self.holding(before)
        mb, ma = self.subject_marks(world, before), self.subject_marks(world, after)
        # ---- abstraction into model events ------------------------------------------------------------------------
        sb = {p['id']: p['state'] for p in before['prs'] if p['author'] != ROBOT}
        sa = {p['id']: p['state'] for p in after['prs'] if p['author'] != ROBOT}
        merged_now = sorted(i for i in sa if sa[i] == 'MERGED' and sb.get(i) == 'OPEN')
        green = ','.join(map(str, merged_now)) or '-'
        target = None
        if ev['e'] == 'job_pr':
            target = ev['pr']
        elif ev['e'] == 'job_commit':
            ref = ev.get('ref', '')
            if ref.startswith('q/') and world.cfg['use_queue'] and ref in before['refs']:
                target = 'queue'
            elif ref in before['refs']:
                src = ref.split('/', 2)[2] if ref.startswith('w/') else ref
                cand = [p['id'] for p in before['prs'] if p['src'] == src and p['author'] != ROBOT
                        and p['state'] == 'OPEN']
                target = min(cand) if cand else None
        if target == 'queue':
            self.mev.append('Q:%s' % green)
        elif target is not None and sb.get(target) is not None:
            ready = st in ('Queued', 'SuccessMessage') or target in merged_now
            direct = st == 'SuccessMessage'
            self.mev.append('P:%d:%d:%d:%s' % (target, ready, direct, green))
        for i in merged_now:
            self.merged_held.append((i, bool(held) if i == 1 else False))
        # ---- model on this evaluation ------------------------------------------------------------------------------
        if self.model is not None and ev['e'] == 'job_pr':
            try:
                self.model_eval(world, ev, before, rec, after)
            except Exception:
                self.out['mismatch'].append({'function': 'model-eval-crash', 'input': ev,
                                             'impl': traceback.format_exc()[-800:], 'model': None})
        # ---- the statement: a held pull request gets nothing -------------------------------------------------------
        if held:
            self.out['held_jobs'] += 1
            self.out['nontrivial'].append('held|%s|%s|%s|%s' % (self.c['spec']['hold'], ev['e'], ev.get('c12'), st))
            got = {}
            if set(ma['w']) - set(mb['w']):
                got['integration_branches'] = sorted(set(ma['w']) - set(mb['w']))
            if set(ma['q']) - set(mb['q']):
                got['queue_entries'] = sorted(set(ma['q']) - set(mb['q']))
            if set(ma['children']) - set(mb['children']):
                got['integration_pull_requests'] = sorted(set(ma['children']) - set(mb['children']))
            if set(ma['landed']) - set(mb['landed']) or (ma['state'] == 'MERGED' and mb['state'] != 'MERGED'):
                got['merged_into'] = sorted(set(ma['landed']) - set(mb['landed']))
            if got:
                if self.queued_at_add and 'merged_into' in got and not (set(got) - {'merged_into'}):
                    key = 'queued-then-held:%s' % hold_word(self.c['spec']['hold'])
                    what = ('a pull request held after it entered the queue was merged by a queue evaluation '
                            '(handle_merge_queues never reads comments)')
                else:
                    key = 'held-got:%s:%s' % ('+'.join(sorted(got)), hold_word(self.c['spec']['hold']))
                    what = 'a held pull request got ' + ', '.join(sorted(got))
                self.violation(ev, 'nothing created, queued or merged while held', got, what, key)
        # ---- bystanders ---------------------------------------------------------------------------------------------
        if ev.get('c12') == 'bystander' and ev['e'] == 'job_pr':
            pr = next((p for p in before['prs'] if p['id'] == ev['pr']), None)
            new = [c for c in after['comments'] if c not in before['comments']]
            if pr and (pr['src'].startswith('user/') or pr['state'] == 'MERGED'):
                self.out['nontrivial'].append('bystander|%s|%s' % ('foreign' if pr['src'].startswith('user/') else 'merged', st))
                if new or before['refs'] != after['refs'] or before['prs'] != after['prs']:
                    self.violation(ev, 'untouched', {'new_comments': [(c['pr'], c['cls']) for c in new],
                                                     'refs_changed': before['refs'] != after['refs']},
                                   'a foreign / merged pull request was touched', 'bystander-touched')
            elif pr and pr['state'] == 'DECLINED':
                self.out['nontrivial'].append('bystander|declined|%s' % st)
                grown = sorted(set(after['refs']) - set(before['refs']))
                if grown or [p for p in after['prs'] if p not in before['prs'] and p['id'] not in sb and p['id'] not in
                             [q['id'] for q in before['prs']]]:
                    self.violation(ev, 'left alone', {'new_refs': grown}, 'a closed pull request got branches or pull requests',
                                   'declined-got')

    def run(self):
        from . import sysworld, histories
        t0 = time.time()
        world = sysworld.World(self.h['cfg'])
        orig_run_job = world.run_job

        def run_job(ev, berte=None, fault=None):
            world._c12_comments_before = world.comments()      # with texts (dump() drops them)
            return orig_run_job(ev, berte=berte, fault=fault)
        world.run_job = run_job
        try:
            first = world.dump()
            self.init_state = first
            histories.run_history(world, self.h['events'], on_job=self.on_job, on_event=self.on_event)
            final = world.dump()
            self.out['final'] = projection(world, final)
            self.out['final_marks'] = self.subject_marks(world, final)
            self.out['abstract'] = self.abstract(first, final, world)
        except Exception:
            self.out['error'] = traceback.format_exc()[-2000:]
        finally:
            world.close()
        self.out['wall'] = time.time() - t0
        return self.out

    def abstract(self, first, final, world):
        """Request line of the model's `run` for the whole history + what really happened."""
        prs = []
        for p in first['prs']:
            if p['author'] == ROBOT:
                continue
            prs.append('%d;%s;%s;%s;%s;-' % (p['id'], hx(p['state']), hx(p['src']), hx(p['dst']), hx(p['author'])))
        # pull requests created later in the history (all are created before the first job here)
        known = {p['id'] for p in first['prs']}
        for p in final['prs']:
            if p['id'] not in known and p['author'] != ROBOT:
                prs.append('%d;%s;%s;%s;%s;-' % (p['id'], hx('OPEN'), hx(p['src']), hx(p['dst']), hx(p['author'])))
        req = 'run %s %s %d %s - %s %s' % (hx(ROBOT), hlist([ADMIN]), world.cfg['use_queue'],
                                          hlist([n for n in first['refs'] if re.match(r'^(development|stabilization|hotfix)/', n)]),
                                          ';'.join(self.mev) or '-', ' '.join(prs))
        real_q = sorted(set(int(n.split('/')[2]) for n in final['refs'] if n.startswith('q/w/')))
        real_m = sorted(p['id'] for p in final['prs'] if p['author'] != ROBOT and p['state'] == 'MERGED')
        return {'request': req, 'queued': real_q, 'merged': real_m, 'log': self.merged_held}


def compare_abstract(ab, ans):
    """Model `run` on the abstracted history against what really happened.  Returns a list of mismatches."""
    if ans.startswith('ERR'):
        return [('run', 'model error', ans)]
    d = dict(kv.split('=', 1) for kv in ans.split(' '))
    out = []
    ids = lambda s: [] if s == '-' else sorted(int(x) for x in s.split(','))
    if ids(d['queued']) != ab['queued']:
        out.append(('queued pull requests at the end', ab['queued'], ids(d['queued'])))
    mm = ids(d['merged'])
    # pull requests that were MERGED before the history started are not in the model's OPEN->MERGED log but are in both
    if mm != ab['merged']:
        out.append(('merged pull requests at the end', ab['merged'], mm))
    mlog = [] if d['log'] == '-' else [(int(x.split(':')[0]), x.split(':')[1] == '1') for x in d['log'].split(',')]
    if sorted(mlog) != sorted((i, bool(h)) for i, h in ab['log']):
        out.append(('merges with "held at that time"', sorted(ab['log']), sorted(mlog)))
    return out


def strip_hold_comments(comments):
    return {i: [c for c in cs if c[1] not in HOLD_MESSAGES and not c[1].startswith('user:')]
            for i, cs in comments.items()}


def compare_twin(hist, out, twin_out):
    """After lifting, the run must end where the hold-free twin ends."""
    res = []
    a, b = out['final'], twin_out['final']
    if a is None or b is None:
        return [('twin', 'run failed', None)]
    spec = hist['c12']['spec']
    if [p[1:] for p in a['prs']] != [p[1:] for p in b['prs']] and spec.get('lift_by', 'delete') == 'delete':
        res.append(('pull requests (source, destination, state)', a['prs'], b['prs']))
    if sorted(a['refs']) != sorted(b['refs']):
        res.append(('branch names', sorted(a['refs']), sorted(b['refs'])))
    if spec.get('lift_by', 'delete') == 'delete' and a['refs'] != b['refs']:
        diff = sorted(n for n in a['refs'] if a['refs'][n] != b['refs'].get(n))
        if diff:
            res.append(('commits (bit-identical runs expected)', diff, None))
    ca, cb = strip_hold_comments(a['comments']), strip_hold_comments(b['comments'])
    # when the hold is lifted by merging the dependency, the two runs merge the pull requests in a different
    # order: whether the queue is needed (skip-queue mode) and hence which messages are posted may differ
    # legitimately; names and final states are compared above
    if spec.get('lift_by', 'delete') == 'delete' and ca.get(1) != cb.get(1):
        res.append(('robot messages on the pull request, hold-related ones left out', ca.get(1), cb.get(1)))
    return res


def needs_twin(history):
    spec = history['c12']['spec']
    return spec['hold'] != 'none' and (spec['lift'] is not None or not history['c12']['holding'])


def history_worker(args):
    """One history in one process.  args = (history, model exe or None).  The final projection is kept for the twin
    comparison made by the caller (twins are shared between histories)."""
    history, exe = args
    os.environ['PYTHONHASHSEED'] = '0'
    model = core.Model(exe) if exe else None
    out = SysRun(history, model).run()
    out['history'] = history
    spec = history['c12']['spec']
    if model is not None and out['abstract'] and not out['error']:
        try:
            ans = model.batch([out['abstract']['request']])[0]
            for what, impl, mod in compare_abstract(out['abstract'], ans):
                out['mismatch'].append({'function': 'history model (run): ' + what,
                                        'input': {'request': out['abstract']['request']}, 'impl': impl, 'model': mod})
            out['hist']['model_history_events'] = len(out['abstract']['request'].split(' ')[6].split(';'))
        except Exception:
            out['mismatch'].append({'function': 'history-model-crash', 'input': None,
                                    'impl': traceback.format_exc()[-800:], 'model': None})
    # a lifted (or never holding) pull request must be merged at the end
    fm = out.get('final_marks')
    if fm and not out['error']:
        still = spec['hold'] != 'none' and spec['lift'] is None and history['c12']['holding']
        if not still and fm['state'] != 'MERGED':
            out['violations'].append({'event': {'e': 'end-of-history'}, 'expected': 'MERGED',
                                      'detail': {'what': 'without a hold the life cycle does not complete', 'observed': fm},
                                      'key': 'lifted-not-merged', 'job_index': out['jobs']})
    out['abstract'] = None
    return out


def twin_violations(history, out, twin_out):
    res = []
    for what, a, b in compare_twin(history, out, twin_out):
        res.append({'event': {'e': 'end-of-history'}, 'expected': b,
                    'detail': {'what': 'after lifting the hold the run differs from its hold-free twin: ' + what,
                               'observed': a},
                    'key': 'twin-differs:' + what.split(' ')[0], 'job_index': out['jobs']})
    return res
