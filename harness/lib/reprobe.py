"""Regular expressions a piece of /repo code uses, observed on the running code instead of read from its AST.

A literal read from the AST of one function breaks on every harmless rewrite (pattern moved to a module constant,
built from named parts, compiled in a helper).  Here the code is *run* on sentinel subjects while `re` is
instrumented, and the pattern that was applied to a given subject is what the facts record.

    with observe() as ev:            # ev: list of (pattern text, flags, subject)
        mod = fresh_module('bert_e/workflow/gitwaterflow/jira.py')   # module-level re.compile calls are seen too
        mod.check_fix_versions(job, issue)
    applied_to(ev, '91.92.93')       # -> the set of (pattern text, flags) matched against that subject

`difference(p1, p2, alphabet, maxlen)` compares two patterns on every string over an alphabet up to a length and
returns a witness string on which they differ (match / no match, or the named groups), None when there is none.
"""
import contextlib
import importlib.util
import itertools
import os
import re
import sys

from lib import core

_METHODS = ('match', 'search', 'fullmatch', 'sub', 'subn', 'split', 'findall', 'finditer')


class _Proxy(object):
    """Stands for a compiled pattern; records the subject of every use."""

    def __init__(self, real, log):
        self.__dict__['_real'] = real
        self.__dict__['_log'] = log

    def __getattr__(self, name):
        attr = getattr(self._real, name)
        if name in _METHODS:
            real, log = self._real, self._log

            def call(*a, **k):
                subject = a[1] if name in ('sub', 'subn') and len(a) > 1 else (a[0] if a else k.get('string'))
                log.append((real.pattern, real.flags, subject))
                return attr(*a, **k)
            return call
        return attr

    def __repr__(self):
        return repr(self._real)


@contextlib.contextmanager
def observe():
    log = []
    saved = {n: getattr(re, n) for n in ('compile',) + _METHODS if hasattr(re, n)}
    real_compile = saved['compile']

    def compile_(pattern, flags=0):
        if isinstance(pattern, _Proxy):
            return pattern
        return _Proxy(real_compile(pattern, flags), log)

    def wrap(name):
        fn = saved[name]

        def call(pattern, *a, **k):
            if isinstance(pattern, _Proxy):
                return getattr(pattern, name)(*a, **k)
            flags = k.get('flags', 0)
            subject = a[1] if name in ('sub', 'subn') and len(a) > 1 else (a[0] if a else k.get('string'))
            try:
                text = pattern if isinstance(pattern, (str, bytes)) else pattern.pattern
                fl = real_compile(pattern, flags).flags if isinstance(pattern, (str, bytes)) else pattern.flags
                log.append((text, fl, subject))
            except Exception:
                pass
            return fn(pattern, *a, **k)
        return call

    re.compile = compile_
    for n in _METHODS:
        if n in saved:
            setattr(re, n, wrap(n))
    try:
        yield log
    finally:
        for n, f in saved.items():
            setattr(re, n, f)


def fresh_module(relpath):
    """A fresh, private copy of a source file of /repo, executed inside its own package (relative imports work);
    the copy is not registered in sys.modules under the real name."""
    path = os.path.join(core.REPO, relpath)
    real = relpath[:-3].replace('/', '.')
    pkg = real.rsplit('.', 1)[0]
    importlib.import_module(pkg)
    name = real + '__probe'
    spec = importlib.util.spec_from_file_location(name, path)
    mod = importlib.util.module_from_spec(spec)
    mod.__package__ = pkg
    sys.modules[name] = mod
    try:
        spec.loader.exec_module(mod)
    finally:
        sys.modules.pop(name, None)
    return mod


def applied_to(events, subject):
    return sorted({(p, f) for p, f, s in events if s == subject}, key=repr)


def the_pattern(events, subject, what):
    got = applied_to(events, subject)
    if len(got) != 1:
        raise ValueError('%s: expected exactly one regular expression applied to %r, observed %r' % (what, subject, got))
    return got[0]


def strings(alphabet, maxlen):
    for n in range(maxlen + 1):
        for t in itertools.product(alphabet, repeat=n):
            yield ''.join(t)


def difference(p1, p2, alphabet, maxlen, how='match'):
    """p1, p2: (pattern text, flags).  A string on which they differ, or None."""
    a = re.compile(p1[0], p1[1] & ~re.UNICODE if isinstance(p1[0], bytes) else p1[1])
    b = re.compile(p2[0], p2[1] & ~re.UNICODE if isinstance(p2[0], bytes) else p2[1])
    fa, fb = getattr(a, how), getattr(b, how)
    for s in strings(alphabet, maxlen):
        ma, mb = fa(s), fb(s)
        if (ma is None) != (mb is None):
            return s
        if ma is not None and (ma.span() != mb.span() or ma.groupdict() != mb.groupdict()):
            return s
    return None
