"""System-level world for the history properties (DESIGN 4.6).

One process = one world: the repository's own mock git host (bert_e/git_host/mock.py) over a real bare git
repository in a scratch directory, a long-lived BertE instance, three human users and the robot.  Events are
JSON-able dicts; after every Bert-E job the observable world is dumped (refs, tags, commit graph, pull requests,
comments, build table, job status) and the git-level operations the job performed are recorded by wrapping
bert_e.lib.git (no change to /repo).
"""
import json
import os
import re
import shutil
import subprocess
import sys
import tempfile
import time
from copy import deepcopy

from . import core

ROBOT, ADMIN, AUTHOR, PEER = 'bert-e', 'admin', 'author', 'peer'
USERS = [ROBOT, ADMIN, AUTHOR, PEER]

SETTINGS_TMPL = """
repository_owner: {owner}
repository_slug: {slug}
repository_host: mock
robot: {robot}
robot_email: nobody@nowhere.com
always_create_integration_pull_requests: {always_prs}
always_create_integration_branches: {always_branches}
pull_request_base_url: https://bitbucket.org/{owner}/{slug}/bar/pull-requests/{{pr_id}}
commit_base_url: https://bitbucket.org/{owner}/{slug}/commits/{{commit_id}}
build_key: {build_key}
required_leader_approvals: {leaders}
required_peer_approvals: {peers}
need_author_approval: {need_author}
skip_queue_when_not_needed: {skip_queue}
admins:
  - {admin}
project_leaders:
  - {admin}
"""

DEFAULT_CFG = {
    # version lines, oldest first: (major, minor or None, stabilization micro or None, [hotfix micros])
    'layout': [[4, 3, 18, []], [5, 1, 4, []], [10, 0, None, []]],
    'use_queue': True, 'skip_queue': False, 'no_octopus': False,
    'peers': 0, 'leaders': 0, 'need_author': False, 'build_key': 'pre-merge',
    'always_prs': True, 'always_branches': True, 'cmd_line_options': [],
}

FIXED_ENV = {
    'GIT_AUTHOR_DATE': '2020-01-01T00:00:00+0000', 'GIT_COMMITTER_DATE': '2020-01-01T00:00:00+0000',
    'GIT_CONFIG_NOSYSTEM': '1', 'GIT_TERMINAL_PROMPT': '0',
}


def _git(cwd, *args, check=True, env=None):
    e = dict(os.environ)
    e.update(FIXED_ENV)
    if env:
        e.update(env)
    p = subprocess.run(['git'] + list(args), cwd=cwd, env=e, stdout=subprocess.PIPE, stderr=subprocess.STDOUT)
    out = p.stdout.decode('utf-8', 'replace')
    if check and p.returncode != 0:
        raise RuntimeError('git %s failed in %s:\n%s' % (' '.join(args), cwd, out))
    return p.returncode, out


def version_name(line):
    return '%d' % line[0] if line[1] is None else '%d.%d' % (line[0], line[1])


class World:
    def __init__(self, cfg=None, scratch=None):
        self.cfg = dict(DEFAULT_CFG)
        self.cfg.update(cfg or {})
        base = os.environ.get('VERIF_SCRATCH', '/tmp')
        self.scratch = scratch or tempfile.mkdtemp(prefix='verif_world_', dir=base)
        self.own_scratch = scratch is None
        os.makedirs(self.scratch, exist_ok=True)
        self.home = os.path.join(self.scratch, 'home')
        os.makedirs(self.home, exist_ok=True)
        os.environ['HOME'] = self.home
        os.environ.update(FIXED_ENV)
        os.environ['TMPDIR'] = os.path.join(self.scratch, 'tmp')
        os.makedirs(os.environ['TMPDIR'], exist_ok=True)
        tempfile.tempdir = None
        self._import()
        self._reset_mock()
        self.clients = {u: self.client_factory('mock', u, 'pw_' + u, u + '@nowhere.com') for u in USERS}
        self.slug = 'repo'
        self.owner = 'owner'
        self.repos = {ADMIN: self.clients[ADMIN].create_repository(owner=self.owner, slug=self.slug)}
        for u in USERS:
            if u != ADMIN:
                self.repos[u] = self.clients[u].get_repository(owner=self.owner, slug=self.slug)
        self.url = self.repos[ADMIN].git_url          # directory of the bare repository
        self.work = os.path.join(self.scratch, 'userclone')
        self.trace = []          # git-level operations of the current job
        self.ops = []            # remote-mutating operations of the current job (for fault injection)
        self.fault = None
        self._cur_push_all = None
        self.jobs_run = 0
        self._init_repo()
        self.berte = self._new_berte()

    # ------------------------------------------------------------------ plumbing
    def _import(self):
        import logging
        logging.disable(logging.CRITICAL)
        import bert_e.lib.retry as retry
        import bert_e.lib.git as libgit
        retry.sleep = lambda *_a, **_k: None
        libgit.time.sleep = lambda *_a, **_k: None
        from bert_e.git_host import client_factory
        from bert_e.git_host import mock as mockhost
        from bert_e.bert_e import BertE
        from bert_e.settings import setup_settings
        from bert_e import job as jobmod
        self.client_factory, self.mock, self.BertE = client_factory, mockhost, BertE
        self.setup_settings, self.jobmod, self.libgit = setup_settings, jobmod, libgit

    def _reset_mock(self):
        m = self.mock
        for (_k, r) in list(m.Repository.repos.items()):
            try:
                r.delete()
            except Exception:
                pass
        m.Repository.repos = {}
        m.Repository.items = []
        m.Repository.revisions = {}
        m.PullRequest.items = []
        m.Comment.items = []

    def _new_berte(self):
        cfg = self.cfg
        path = os.path.join(self.scratch, 'settings.yml')
        with open(path, 'w') as f:
            f.write(SETTINGS_TMPL.format(
                owner=self.owner, slug=self.slug, robot=ROBOT, admin=ADMIN,
                always_prs=cfg['always_prs'], always_branches=cfg['always_branches'],
                build_key=cfg['build_key'] if cfg['build_key'] else '""',
                leaders=cfg['leaders'], peers=cfg['peers'], need_author=cfg['need_author'],
                skip_queue=cfg['skip_queue']))
        settings = self.setup_settings(path)
        settings['robot_password'] = 'pw_' + ROBOT
        settings['jira_token'] = 'dummy'
        settings['cmd_line_options'] = list(cfg['cmd_line_options']) + (['no_octopus'] if cfg['no_octopus'] else [])
        settings['backtrace'] = True
        settings['quiet'] = True
        settings['disable_queues'] = not cfg['use_queue']
        b = self.BertE(settings)
        return b

    def close(self):
        try:
            self.berte.git_repo.delete()
        except Exception:
            pass
        self._reset_mock()
        if self.own_scratch:
            shutil.rmtree(self.scratch, ignore_errors=True)

    # ------------------------------------------------------------------ repository layout
    def ugit(self, *args, check=True):
        return _git(self.work, *args, check=check)

    def _commit_files(self, files, msg):
        for name, content in files:
            d = os.path.dirname(os.path.join(self.work, name))
            os.makedirs(d, exist_ok=True)
            with open(os.path.join(self.work, name), 'w') as f:
                f.write(content)
            self.ugit('add', name)
        self.ugit('commit', '-q', '-m', msg)

    def _commit_file(self, name, content, msg):
        d = os.path.dirname(os.path.join(self.work, name))
        os.makedirs(d, exist_ok=True)
        with open(os.path.join(self.work, name), 'w') as f:
            f.write(content)
        self.ugit('add', name)
        self.ugit('commit', '-q', '-m', msg)

    def _init_repo(self):
        os.makedirs(self.work)
        self.ugit('init', '-q', '--initial-branch=master')
        self.ugit('config', 'user.email', 'admin@nowhere.com')
        self.ugit('config', 'user.name', ADMIN)
        self._commit_file('a', 'root\n', 'U:root')
        self.ugit('remote', 'add', 'origin', self.url)
        prev = 'master'
        for line in self.cfg['layout']:
            major, minor, stab, hotfixes = line
            v = version_name(line)
            if minor is not None:
                for hf in hotfixes:
                    # a hotfix branch starts from the release tag x.y.z.0 of an older micro
                    self.ugit('checkout', '-q', '-b', 'hotfix/%d.%d.%d' % (major, minor, hf), prev)
                    self._commit_file('hf_%s_%d' % (v, hf), 'hf\n', 'U:hotfix-%s.%d' % (v, hf))
                    self.ugit('tag', '%d.%d.%d.0' % (major, minor, hf))
                if stab is not None:
                    self.ugit('checkout', '-q', '-b', 'stabilization/%s.%d' % (v, stab), prev)
                    self._commit_files([('stab_%s' % v, 'stab\n'), ('conf', 'conf of stab %s\n' % v)], 'U:stab-%s' % v)
                    prev = 'stabilization/%s.%d' % (v, stab)
                    if stab > 0:
                        self.ugit('tag', '%s.%d' % (v, stab - 1), 'master')
            self.ugit('checkout', '-q', '-b', 'development/%s' % v, prev)
            self._commit_files([('dev_%s' % v, 'dev\n'), ('conf', 'conf of dev %s\n' % v)], 'U:dev-%s' % v)
            prev = 'development/%s' % v
        self.ugit('checkout', '-q', '--detach')
        self.ugit('branch', '-q', '-D', 'master')
        self.ugit('push', '-q', '--all', 'origin')
        self.ugit('push', '-q', '--tags', 'origin')

    def dest_branches(self):
        """Destination branches present on the remote, in cascade order (hotfix branches separately)."""
        refs = self.refs()
        devs, hot = [], []
        for n in refs:
            m = re.match(r'^development/(\d+)(?:\.(\d+))?$', n)
            if m:
                devs.append(((int(m.group(1)), 1 if m.group(2) is None else 0,
                              int(m.group(2) or 0), 1, 0), n))
            m = re.match(r'^stabilization/(\d+)\.(\d+)\.(\d+)$', n)
            if m:
                devs.append(((int(m.group(1)), 0, int(m.group(2)), 0, int(m.group(3))), n))
            if re.match(r'^hotfix/\d+\.\d+\.\d+$', n):
                hot.append(n)
        return [n for _, n in sorted(devs)], sorted(hot)

    # ------------------------------------------------------------------ observation
    def refs(self):
        _, out = _git(self.url, 'for-each-ref', '--format=%(refname) %(objectname)', 'refs/heads')
        return {l.split()[0][len('refs/heads/'):]: l.split()[1] for l in out.splitlines() if l.strip()}

    def tags(self):
        _, out = _git(self.url, 'for-each-ref', '--format=%(refname) %(objectname) %(*objectname)', 'refs/tags')
        res = {}
        for l in out.splitlines():
            p = l.split()
            if p:
                res[p[0][len('refs/tags/'):]] = p[2] if len(p) > 2 else p[1]
        return res

    def graph(self):
        """sha -> (parents, author name, subject) for every commit reachable from any ref of the remote."""
        _, out = _git(self.url, 'log', '--all', '--format=%H|%P|%an|%s')
        g = {}
        for l in out.splitlines():
            h, p, an, s = l.split('|', 3)
            g[h] = (p.split(), an, s)
        return g

    def is_ancestor(self, a, b):
        rc, _ = _git(self.url, 'merge-base', '--is-ancestor', a, b, check=False)
        return rc == 0

    def tree(self, rev):
        return _git(self.url, 'rev-parse', rev + '^{tree}')[1].strip()

    def prs(self):
        res = []
        for item in sorted(self.mock.PullRequest.items, key=lambda p: p.id):
            res.append({'id': item.id, 'author': item.author['username'], 'src': item.source['branch']['name'],
                        'dst': item.destination['branch']['name'], 'state': item.state,
                        'title': item.title, 'description': item.description})
        return res

    def comments(self, pr_id=None):
        res = []
        for c in self.mock.Comment.items:
            if pr_id is not None and c.pull_request_id != pr_id:
                continue
            res.append({'pr': c.pull_request_id, 'by': c.user['username'], 'cls': message_class(c.content['raw']),
                        'id': c.id, 'text': c.content['raw']})
        return res

    def builds(self):
        return {('%s|%s' % k): v for k, v in self.mock.Repository.revisions.items()}

    def dump(self):
        return {'refs': self.refs(), 'tags': self.tags(), 'prs': self.prs(),
                'comments': [{k: c[k] for k in ('pr', 'by', 'cls', 'id')} for c in self.comments()],
                'builds': self.builds(), 'pending': [str(j) for j in self.berte.task_queue.queue]}

    # ------------------------------------------------------------------ user events
    def apply(self, ev):
        """Apply one non-Bert-E event.  Returns a small result dict."""
        e = ev['e']
        if e == 'create_pr':
            src, dst = ev['src'], ev['dst']
            if not ev.get('reuse'):
                self.ugit('fetch', '-q', 'origin')
                self.ugit('checkout', '-q', '-B', src, 'origin/' + (ev.get('from') or dst))
                self._commit_file(ev.get('file', 'f_' + src.replace('/', '_')), ev.get('content', src + '\n'),
                                  'U:' + ev.get('label', src))
                self.ugit('push', '-q', '-f', 'origin', src)
            pr = self.repos[ev.get('user', AUTHOR)].create_pull_request(
                title=ev.get('title', 'title'), name='name', src_branch=src, dst_branch=dst,
                close_source_branch=True, reviewers=[], description=ev.get('description', ''))
            return {'pr': pr.id}
        if e == 'push':          # a new commit on an existing branch (source, w/ or any other)
            b = ev['branch']
            self.ugit('fetch', '-q', 'origin')
            self.ugit('checkout', '-q', '-B', b, 'origin/' + b)
            if ev.get('as'):
                self.ugit('config', 'user.name', ev['as'])
            self._commit_file(ev.get('file', 'f_' + ev['label']), ev.get('content', ev['label'] + '\n'),
                              'U:' + ev['label'])
            self.ugit('config', 'user.name', ADMIN)
            rc, out = self.ugit('push', '-q', 'origin', b, check=False)
            return {'pushed': rc == 0}
        if e == 'merge_push':    # a user-made merge commit of `other` into `branch` (manual conflict resolution)
            b = ev['branch']
            self.ugit('fetch', '-q', 'origin')
            self.ugit('checkout', '-q', '-B', b, 'origin/' + b)
            rc, out = self.ugit('merge', '--no-ff', '--no-edit', '-m', 'U:' + ev['label'], 'origin/' + ev['other'],
                                check=False)
            if rc != 0:
                self.ugit('merge', '--abort', check=False)
                return {'pushed': False}
            rc, out = self.ugit('push', '-q', 'origin', b, check=False)
            return {'pushed': rc == 0}
        if e == 'resolve':       # the author resolves a forward-port conflict as Bert-E's message tells him to
            wname, dst, frm = ev['w'], ev['dst'], ev['from']
            self.ugit('fetch', '-q', 'origin')
            refs = self.refs()
            base = wname if wname in refs else dst
            self.ugit('checkout', '-q', '-B', wname, 'origin/' + base)
            self.ugit('config', 'user.name', ev.get('as', AUTHOR))
            rc, out = self.ugit('merge', '--no-edit', '-X', ev.get('side', 'theirs'), '-m', 'U:' + ev['label'],
                                'origin/' + frm, check=False)
            self.ugit('config', 'user.name', ADMIN)
            if rc != 0:
                self.ugit('merge', '--abort', check=False)
                return {'pushed': False}
            rc, out = self.ugit('push', '-q', 'origin', wname, check=False)
            return {'pushed': rc == 0}
        if e == 'amend':         # rewrite the tip of a source branch and force-push
            b = ev['branch']
            self.ugit('fetch', '-q', 'origin')
            self.ugit('checkout', '-q', '-B', b, 'origin/' + b)
            self._commit_file(ev.get('file', 'f_' + ev['label']), ev.get('content', ev['label'] + '\n'), 'tmp')
            self.ugit('reset', '-q', '--soft', 'HEAD~2')
            self.ugit('commit', '-q', '-m', 'U:' + ev['label'])
            self.ugit('push', '-q', '-f', 'origin', b)
            return {}
        if e == 'rebase':        # rebase a source branch on its (moved) base and force-push
            b = ev['branch']
            self.ugit('fetch', '-q', 'origin')
            self.ugit('checkout', '-q', '-B', b, 'origin/' + b)
            rc, out = self.ugit('rebase', '-q', 'origin/' + ev['onto'], check=False)
            if rc != 0:
                self.ugit('rebase', '--abort', check=False)
                return {'rebased': False}
            self.ugit('push', '-q', '-f', 'origin', b)
            return {'rebased': True}
        if e == 'reset_branch':  # move a source branch back to its first commit and force-push
            b = ev['branch']
            self.ugit('fetch', '-q', 'origin')
            self.ugit('checkout', '-q', '-B', b, 'origin/' + b)
            self.ugit('reset', '-q', '--hard', 'HEAD~1')
            self.ugit('push', '-q', '-f', 'origin', b)
            return {}
        if e == 'new_branch':    # third party creates an unrelated branch
            self.ugit('fetch', '-q', 'origin')
            self.ugit('checkout', '-q', '-B', ev['branch'], 'origin/' + ev['from'])
            self._commit_file('f_' + ev['label'], ev['label'] + '\n', 'U:' + ev['label'])
            self.ugit('push', '-q', 'origin', ev['branch'])
            return {}
        if e == 'delete_branch_user':
            self.ugit('push', '-q', 'origin', ':' + ev['branch'], check=False)
            return {}
        if e == 'tag_user':      # somebody tags a commit of a branch: its tip (back = 0) or an older commit
            self.ugit('fetch', '-q', 'origin')
            rc, sha = self.ugit('rev-parse', '--verify', '-q', 'origin/%s~%d' % (ev['branch'], ev.get('back', 0)),
                                check=False)
            if rc == 0:
                self.ugit('tag', '-f', ev['tag'], sha.strip())
                self.ugit('push', '-q', 'origin', 'refs/tags/' + ev['tag'], check=False)
            return {}
        pr = None
        if 'pr' in ev:
            pr = self.repos[ev.get('user', AUTHOR)].get_pull_request(pull_request_id=ev['pr'])
        if e == 'approve':
            pr.approve()
        elif e == 'unapprove':
            pr.dismiss(None)
        elif e == 'request_changes':
            pr.request_changes()
        elif e == 'comment':
            pr.add_comment(ev['text'])
        elif e == 'delete_comment':
            cs = [c for c in self.mock.Comment.items if c.pull_request_id == ev['pr'] and
                  c.user['username'] == ev.get('user', AUTHOR)]
            if cs:
                cs[ev.get('idx', -1) % len(cs)].delete()
        elif e == 'decline':
            pr.decline()
        elif e == 'build':
            sha = ev.get('sha') or self.refs().get(ev['ref'])
            if sha:
                self.repos[ROBOT].set_build_status(revision=sha, key=ev.get('key', self.cfg['build_key'] or 'k'),
                                                   state=ev['state'])
            return {'sha': sha}
        else:
            raise ValueError('unknown event %r' % (ev,))
        return {}

    # ------------------------------------------------------------------ Bert-E jobs
    def make_job(self, ev, berte=None):
        b = berte or self.berte
        k = ev['e']
        if k == 'job_pr':
            pr = self.repos[ROBOT].get_pull_request(pull_request_id=ev['pr'])
            pr.client = b.client
            # as the webhook handlers build it (bert_e/server/webhook.py): no settings argument unless the event has one
            kw = {'settings': ev['settings']} if 'settings' in ev else {}
            return self.jobmod.PullRequestJob(bert_e=b, pull_request=deepcopy(pr), **kw)
        if k == 'job_commit':
            sha = ev.get('sha') or self.refs().get(ev['ref'])
            if sha is None:
                return None
            return self.jobmod.CommitJob(bert_e=b, commit=sha)
        if k == 'job_api':
            from bert_e.jobs.create_branch import CreateBranchJob
            from bert_e.jobs.delete_branch import DeleteBranchJob
            from bert_e.jobs.delete_queues import DeleteQueuesJob
            from bert_e.jobs.rebuild_queues import RebuildQueuesJob
            from bert_e.jobs.force_merge_queues import ForceMergeQueuesJob
            from bert_e.jobs.eval_pull_request import EvalPullRequestJob
            cls = {'create_branch': CreateBranchJob, 'delete_branch': DeleteBranchJob,
                   'delete_queues': DeleteQueuesJob, 'rebuild_queues': RebuildQueuesJob,
                   'force_merge_queues': ForceMergeQueuesJob, 'eval_pr': EvalPullRequestJob}[ev['kind']]
            if 'body' in ev:
                # as APIEndpoint.view builds it: URL arguments as kwargs, the JSON body of the request as settings,
                # the session's user (any authenticated user for a non-admin endpoint)
                return cls(bert_e=b, kwargs=dict(ev.get('args', {})), settings=dict(ev['body']),
                           user=ev.get('user', ADMIN))
            return cls(bert_e=b, settings=dict(ev.get('args', {})), user=ADMIN)
        raise ValueError(ev)

    def run_job(self, ev, berte=None, fault=None):
        """Run one Bert-E job through put_job/process_task.  Returns the job record."""
        b = berte or self.berte
        job = self.make_job(ev, b)
        if job is None:
            return {'status': 'NoSuchRef', 'trace': [], 'ops': []}
        if fault is None and ev.get('fault'):
            fault = dict(ev['fault'])            # a fault scripted in the history itself (replayable)
            if fault.get('mode') == 'third_party' and 'action' not in fault and fault.get('branch'):
                def _tp(w, name=fault['branch']):
                    frm = sorted(n for n in w.refs() if n.startswith('development/'))[0]
                    w.apply({'e': 'new_branch', 'branch': name, 'from': frm, 'label': 'tp_' + name.replace('/', '_')})
                    return {name: w.refs().get(name)}
                fault['action'] = _tp
                fault.setdefault('kind', 'new_branch')
        self.trace, self.ops, self.fault = [], [], fault
        self.cmd_count = 0
        self._reset_stages()
        rec = Recorder(self)
        before = len(b.tasks_done)
        worker_died = None
        with rec:
            b.put_job(job)
            try:
                b.process_task()
            except Exception as exc:
                # process_task handles every Exception of a job itself: one that escapes it ends the worker loop
                # (`while True: bert_e.process_task()` in its thread).  Recorded; the history goes on with what a
                # restarted worker would find.
                import traceback as _tb
                worker_died = '%s: %s | %s' % (type(exc).__name__, exc, _tb.format_exc()[-600:])
                b.status.pop('current job', None)
        self.jobs_run += 1
        return {'status': job.status or ('OK' if job.done else 'NOTDONE'), 'details': job.details,
                'worker_died': worker_died,
                'fault_fired': bool(fault and fault.get('fired')), 'fault_command': (fault or {}).get('command'),
                'fault_used': fault,
                'trace': self.trace, 'ops': self.ops, 'done': job.done, 'stages': list(self.stages.roots),
                'worker_clean': 'current job' not in b.status and len(b.tasks_done) >= before}

    def _reset_stages(self):
        from . import pipeline
        if getattr(self, 'stages', None) is None:
            self.stages = pipeline.Stages()
        self.stages.reset()

    def snapshot(self):
        """Copy of the remote repository and of the mock host state (for re-running a job from the same state)."""
        import copy
        d = tempfile.mkdtemp(prefix='snap_', dir=self.scratch)
        shutil.copytree(self.url, os.path.join(d, 'bare'), symlinks=True)
        m = self.mock
        memo = {}
        state = {
            'dir': d,
            'prs': [self._copy_obj(o) for o in m.PullRequest.items],
            'comments': [self._copy_obj(o) for o in m.Comment.items],
            'revisions': dict(m.Repository.revisions),
        }
        return state

    @staticmethod
    def _copy_obj(o):
        import copy
        keep = {}
        for k, v in o.__dict__.items():
            if k in ('repo', 'client'):
                keep[k] = v                      # shared infrastructure objects
            elif k in ('source', 'destination'):
                keep[k] = {'branch': dict(v['branch']), 'commit': v['commit'], 'repository': v['repository']}
            else:
                keep[k] = copy.deepcopy(v)
        return (o, keep)

    def restore(self, state):
        m = self.mock
        for f in os.listdir(self.url):
            p = os.path.join(self.url, f)
            shutil.rmtree(p) if os.path.isdir(p) and not os.path.islink(p) else os.remove(p)
        src = os.path.join(state['dir'], 'bare')
        for f in os.listdir(src):
            p = os.path.join(src, f)
            if os.path.isdir(p):
                shutil.copytree(p, os.path.join(self.url, f), symlinks=True)
            else:
                shutil.copy2(p, os.path.join(self.url, f))
        import copy
        items = []
        for o, keep in state['prs']:
            o.__dict__.clear()
            o.__dict__.update({k: (v if k in ('repo', 'client', 'source', 'destination') else copy.deepcopy(v))
                               for k, v in keep.items()})
            for k in ('source', 'destination'):
                o.__dict__[k] = {'branch': dict(keep[k]['branch']), 'commit': keep[k]['commit'],
                                 'repository': keep[k]['repository']}
            items.append(o)
        m.PullRequest.items = items
        citems = []
        for o, keep in state['comments']:
            o.__dict__.clear()
            o.__dict__.update({k: (v if k in ('repo', 'client') else copy.deepcopy(v)) for k, v in keep.items()})
            citems.append(o)
        m.Comment.items = citems
        m.Repository.revisions.clear()
        m.Repository.revisions.update(state['revisions'])
        while not self.berte.task_queue.empty():
            self.berte.task_queue.get()
            self.berte.task_queue.task_done()

    def drop_snapshot(self, state):
        shutil.rmtree(state['dir'], ignore_errors=True)

    def local_graph(self, shas, berte=None):
        """sha -> parents for the given commits and all their ancestors, read from the job's local clone
        (objects of deleted temporary branches are still in its object database)."""
        b = berte or self.berte
        d = b.git_repo.cmd_directory
        shas = sorted(set(x for x in shas if x))
        if not d or not os.path.isdir(os.path.join(d, '.git')) or not shas:
            return {}
        g = {}
        for i in range(0, len(shas), 200):
            rc, out = _git(d, 'rev-list', '--parents', '--topo-order', '--reverse', *shas[i:i + 200], check=False)
            if rc != 0:
                continue
            for l in out.splitlines():
                p = l.split()
                if p:
                    g[p[0]] = p[1:]
        return g

    def drain(self, limit=8):
        """Run all the jobs a previous job enqueued (rebuild_queues wakes pull requests up)."""
        return list(self.drain_iter(limit))

    def drain_iter(self, limit=8):
        """Same, one at a time: a generator, so that the caller can observe the world between two of them."""
        while self.berte.task_queue.qsize() and limit:
            limit -= 1
            self.trace, self.ops, self.fault = [], [], None
            self._reset_stages()
            with Recorder(self):
                job = self.berte.process_task()
            yield {'job': str(job), 'status': job.status, 'trace': self.trace, 'ops': self.ops,
                   'stages': list(self.stages.roots)}


# ---------------------------------------------------------------------------------- recording / faults

def _mentions(kind, detail, ref, world):
    """Does this push try to update `ref`?  (named push: it is listed; push of all heads: it differs locally)"""
    if ref is None:
        return False
    if kind == 'push':
        return ref in [n.lstrip(':') for n in detail]
    cur = getattr(world, '_cur_push_all', None)
    local = (cur or {}).get('local') or {}
    return ref in local and world.refs().get(ref) != local[ref]


class InjectedCrash(BaseException):
    """Process death: nothing in Bert-E may catch it (BaseException), every later operation is skipped."""


class Recorder:
    """Wraps bert_e.lib.git (Branch.merge/create/remove/reset, Repository.push/push_all/cmd for tags) and the
    mock host's mutators for the duration of one job; records operations and applies the scheduled fault."""

    def __init__(self, world):
        self.w = world
        self.saved = []

    def _patch(self, obj, name, wrapper):
        orig = getattr(obj, name)
        self.saved.append((obj, name, orig))
        setattr(obj, name, wrapper(orig))

    def local_refs(self, repo):
        try:
            if not repo.cmd_directory or not os.path.isdir(os.path.join(repo.cmd_directory, '.git')):
                return None
            _, out = _git(repo.cmd_directory, 'for-each-ref', '--format=%(refname) %(objectname)', 'refs/heads')
            return {l.split()[0][len('refs/heads/'):]: l.split()[1] for l in out.splitlines() if l.strip()}
        except Exception:
            return None

    def __enter__(self):
        w, lg = self.w, self.w.libgit
        rec = self

        def remote_op(kind, detail, run):
            """A remote-mutating operation: numbered; faults are placed relative to these."""
            idx = len(w.ops)
            op = {'i': idx, 'kind': kind, 'detail': detail}
            w.ops.append(op)
            f = w.fault
            if f and f.get('crashed'):
                raise InjectedCrash()
            if f and f.get('at') == idx and f.get('mode') == 'crash_before':
                f['crashed'] = True
                raise InjectedCrash()
            if f and f.get('mode') == 'third_party' and kind in ('push', 'push_all', 'rawpush'):
                f['pushes_seen'] = f.get('pushes_seen', 0) + 1
                if f['pushes_seen'] - 1 == f.get('push_index') and not f.get('fired'):
                    f['fired'] = True
                    op['third_party'] = f['kind']
                    f['result'] = f['action'](w)
            if kind in ('push', 'push_all', 'rawpush'):
                op['remote_before'] = w.refs()
            try:
                if f and f.get('mode') == 'reject' and idx >= f.get('at', 0) and kind in ('push', 'push_all') \
                        and _mentions(kind, detail, f.get('ref'), w):
                    # the server refuses this ref for the rest of the job (branch protection / concurrent update)
                    op['rejected'] = f.get('ref')
                    f['fired'] = True
                    res = run(reject=f.get('ref'))
                else:
                    res = run(reject=None)
                op['ok'] = True
            except BaseException:
                op['ok'] = False
                raise
            finally:
                if kind in ('push', 'push_all', 'rawpush'):
                    op['remote_after'] = w.refs()
            op['done'] = True
            if f and f.get('at') == idx and f.get('mode') == 'crash_after':
                f['crashed'] = True
                raise InjectedCrash()
            return res

        def w_merge(orig):
            def merge(self_, *srcs, **kw):
                before = rec.local_refs(self_.repo)
                ok = True
                try:
                    return orig(self_, *srcs, **kw)
                except lg.MergeFailedException:
                    ok = False
                    raise
                finally:
                    after = rec.local_refs(self_.repo)
                    w.trace.append({'op': 'merge', 'dst': self_.name, 'srcs': [s.name for s in srcs], 'ok': ok,
                                    'before': before, 'after': after})
            return merge

        def w_create(orig):
            def create(self_, source_branch, do_push=True):
                src = source_branch.name if isinstance(source_branch, lg.Branch) else source_branch
                r = orig(self_, source_branch, do_push=do_push)
                w.trace.append({'op': 'create', 'name': self_.name, 'from': str(src), 'push': do_push})
                return r
            return create

        def w_remove(orig):
            def remove(self_, del_local=True, force=False, do_push=False):
                w.trace.append({'op': 'remove', 'name': self_.name, 'del_local': del_local, 'force': force,
                                'push': do_push})
                return orig(self_, del_local=del_local, force=force, do_push=do_push)
            return remove

        def w_push(orig):
            def push(self_, name):
                names = [n.strip("'") for n in name.split()]

                def run(reject):
                    if reject is None:
                        return orig(self_, name)
                    # the server refuses one ref of a non-atomic push: the others go through
                    kept = ' '.join("'%s'" % n for n in names if n.lstrip(':') != reject)
                    if kept:
                        orig(self_, kept)
                    raise lg.PushFailedException(name)
                w.trace.append({'op': 'push', 'names': names, 'local': rec.local_refs(self_), 'opi': len(w.ops)})
                return remote_op('push', names, run)
            return push

        def w_push_all(orig):
            def push_all(self_, prune=False):
                def run(reject):
                    if reject is None:
                        return orig(self_, prune=prune)
                    # atomic push: one refused ref refuses everything
                    raise lg.PushFailedException('atomic push failed: ' + str(reject))
                entry = {'op': 'push_all', 'prune': prune, 'local': rec.local_refs(self_), 'opi': len(w.ops),
                         'deleted': [], 'uses_prune': False}
                w.trace.append(entry)
                w._cur_push_all = entry
                try:
                    return remote_op('push_all', {'prune': prune}, run)
                finally:
                    w._cur_push_all = None
            return push_all

        def w_cmd(orig):
            def cmd(self_, command, *args, **kw):
                c = command % tuple(args) if args else command
                idx = getattr(w, 'cmd_count', 0)
                w.cmd_count = idx + 1
                f = w.fault
                if f and f.get('mode') == 'git_fail' and f.get('cmd_index') == idx and not f.get('fired'):
                    # one git command of the job fails once (network hiccup, stale lock): it is not run at all
                    f['fired'] = True
                    f['command'] = c.split(' http')[0][:80]
                    from bert_e.lib.simplecmd import CommandError
                    raise CommandError('injected failure of: %s' % c.split(' http')[0][:80])
                cur = getattr(w, '_cur_push_all', None)
                if cur is not None and re.match(r'^git push\b', c):
                    cur['cmd'] = c
                    cur['deleted'] = re.findall(r"':refs/heads/([^']+)'", c)
                    cur['uses_prune'] = '--prune' in c
                    return orig(self_, command, *args, **kw)
                if re.match(r'^git push\b', c) and 'origin' in c and '--set-upstream' not in c \
                        and '--all' not in c:
                    w.trace.append({'op': 'rawpush', 'cmd': c})
                    return remote_op('rawpush', c, lambda reject: orig(self_, command, *args, **kw))
                if re.match(r'^git (push|merge|reset|branch -D|tag)\b', c) and ' --force' in c or ' -f ' in c:
                    w.trace.append({'op': 'forced', 'cmd': c})
                return orig(self_, command, *args, **kw)
            return cmd

        self._patch(lg.Branch, 'merge', w_merge)
        self._patch(lg.Branch, 'create', w_create)
        self._patch(lg.Branch, 'remove', w_remove)
        self._patch(lg.Repository, 'push', w_push)
        self._patch(lg.Repository, 'push_all', w_push_all)
        self._patch(lg.Repository, 'cmd', w_cmd)

        m = w.mock

        def w_host(kind):
            def wrap(orig):
                def f(self_, *a, **kw):
                    detail = {'pr': getattr(self_, 'id', None)}
                    if kind == 'create_pr':
                        detail = {'src': kw.get('src_branch'), 'dst': kw.get('dst_branch')}
                    return remote_op(kind, detail, lambda reject: orig(self_, *a, **kw))
                return f
            return wrap
        self._patch(m.PullRequestController, 'add_comment', w_host('comment'))
        self._patch(m.PullRequestController, 'decline', w_host('decline'))
        self._patch(m.PullRequestController, 'set_bot_status', w_host('bot_status'))
        self._patch(m.Repository, 'create_pull_request', w_host('create_pr'))
        # the call sites of the job handlers (Model/Pipeline.v), recorded as a call tree
        from . import pipeline
        pipeline.install(self._patch, w)
        return self

    def __exit__(self, et, ev, tb):
        for obj, name, orig in reversed(self.saved):
            setattr(obj, name, orig)
        self.saved = []
        if et is InjectedCrash:
            # the process "died": BertE.process_task's finally clause did run in this emulation; tidy up
            b = self.w.berte
            b.status.pop('current job', None)
            return True
        return False


# ---------------------------------------------------------------------------------- message classes

def message_class(text):
    """Class of a comment: the title line of a robot message ('# In the queue'), or 'user:<first words>'."""
    lines = [l for l in text.strip().split('\n') if l.strip()]
    if lines and lines[0].startswith('# '):
        return lines[0][2:].strip()
    w = text.strip().split()
    return 'user:' + (' '.join(w[:3]) if w else '')
