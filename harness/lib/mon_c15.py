"""C15: observation of the real system around one `@bert-e reset` / `force_reset` job.

Tracker      records, along a history, what the statement needs beyond the commit graph: every commit ever reachable
             from the source branch tip (src_hist) and every commit that ever was the tip of an integration branch.
import_world turns the real bare repository before the job (commit graph with authors, refs, pull requests, the
             orders `git log` prints, the answers of the author test) into one request line of the extracted model.
monitors     the statement evaluated on the real refs / pull requests after the job (refuse, scope, rebuild).
"""
import re

from . import sysworld
from .sysworld import ROBOT


def own_names(src, dests, dst):
    """The integration-branch names of a pull request (statement: w/<version>/<source>) for its cascade: the
    destination and every later development branch.  Returns [(wname, destination name)]."""
    i = dests.index(dst)
    casc = [dst] + [d for d in dests[i + 1:] if d.startswith('development/')]
    return [('w/%s/%s' % (d.split('/', 1)[1], src), d) for d in casc]


class Tracker:
    def __init__(self, world, src, cands):
        self.world, self.src, self.cands = world, src, cands
        self.src_hist = set()
        self.w_tips = {w: [] for w, _ in cands}
        self.manual_labels = []

    def observe(self):
        refs = self.world.refs()
        if self.src in refs:
            _, out = sysworld._git(self.world.url, 'rev-list', refs[self.src])
            self.src_hist.update(out.split())
        for w, _ in self.cands:
            if w in refs and refs[w] not in self.w_tips[w]:
                self.w_tips[w].append(refs[w])


def git_log(world, merges_hidden, a, b, flag='--no-merges'):
    """What Branch.get_commit_diff lists for `a..b` (newest first), on the bare remote."""
    args = ['log'] + ([flag] if merges_hidden else []) + ['--pretty=%H', '%s..%s' % (a, b)]
    _, out = sysworld._git(world.url, *args)
    return out.split()


def author_test(world, author_cmd, sha):
    """The literal command of Commit.author, stripped as the code does, compared with the robot's name."""
    import shlex
    import subprocess
    cmd = author_cmd % sha
    p = subprocess.run(shlex.split(cmd), cwd=world.url, stdout=subprocess.PIPE, stderr=subprocess.DEVNULL)
    return p.stdout.decode('utf-8', 'backslashreplace').strip() == ROBOT


def topo_ids(graph):
    """cid per sha, parents first (deterministic)."""
    ids, order = {}, []
    state = {}
    for root in sorted(graph):
        stack = [(root, 0)]
        while stack:
            n, i = stack.pop()
            if n in ids:
                continue
            ps = [p for p in graph[n][0] if p in graph]
            if i < len(ps):
                stack.append((n, i + 1))
                if ps[i] not in ids:
                    stack.append((ps[i], 0))
            else:
                ids[n] = len(order)
                order.append(n)
    return ids, order


def import_world(world, facts, tracker, pr, force, before):
    """Build the model request for the reset job about to run.  Returns (request line, context dict)."""
    graph = world.graph()
    ids, order = topo_ids(graph)
    refs = before['refs']
    names = {}
    for n in list(refs) + [w for w, _ in tracker.cands] + [p['src'] for p in before['prs']]:
        names.setdefault(n, len(names))
    store = ';'.join('%s/%d' % (','.join(str(ids[p]) for p in graph[h][0]) or '-', graph[h][1] == ROBOT)
                     for h in order) or '-'
    seen = [ids[h] for h in order if author_test(world, facts['author_cmd'], h)]
    snap = ','.join('%d:%d' % (names[n], ids[refs[n]]) for n in sorted(refs)) or '-'
    cands, real_logs = [], {}
    for w, d in tracker.cands:
        o = '-'
        if w in refs and d in refs and tracker.src in refs:
            walk = list(reversed(git_log(world, facts['walk_ignore_merges'], d, w, facts['no_merges_flag'])))
            feat = git_log(world, facts['feature_ignore_merges'], d, tracker.src, facts['no_merges_flag'])
            real_logs[w] = {'walk': sorted(ids[x] for x in walk), 'feature': sorted(ids[x] for x in feat)}
            o = '+'.join(str(ids[x]) for x in walk) or '-'
        cands.append('%d:%d:%s' % (names[w], names[d], o))
    prs = ','.join('%d:%d:%d' % (p['id'], names[p['src']], p['state'] == 'OPEN') for p in before['prs']) or '-'
    hist = '%s|%s' % (','.join(str(ids[h]) for h in sorted(tracker.src_hist) if h in ids) or '-',
                      ';'.join('%d=%s' % (names[w], '+'.join(str(ids[t]) for t in tips if t in ids) or '-')
                               for w, tips in tracker.w_tips.items()) or '-')
    req = 'reset %d %s %s %s %s %d %s %s %s' % (force, store, ','.join(map(str, seen)) or '-', snap, snap,
                                              names[tracker.src], ';'.join(cands) or '-', prs, hist)
    return req, {'ids': ids, 'order': order, 'names': names, 'graph': graph, 'real_logs': real_logs, 'seen': seen}


def parse_answer(ans):
    if ans.startswith('ERR'):
        raise RuntimeError('model: ' + ans)
    d = dict(kv.split('=', 1) for kv in ans.split(' '))

    def lst(s, sep=','):
        return [] if s == '-' else [int(x) for x in s.split(sep)]

    def per(s):
        res = {}
        if s != '-':
            for part in s.split(';'):
                k, v = part.split(':')
                res[int(k)] = v
        return res
    return {'outcome': d['outcome'], 'deleted': lst(d['deleted']), 'declined': lst(d['declined']),
            'pushes': int(d['pushes']),
            'remote': {} if d['remote'] == '-' else {int(k): int(v) for k, v in
                                                     (kv.split(':') for kv in d['remote'].split(','))},
            'lossy': per(d['lossy']), 'feature': {k: lst(v, '+') for k, v in per(d['feature']).items()},
            'walk': {k: lst(v, '+') for k, v in per(d['walk']).items()}, 'demand': d['demand'],
            'manual': {k: lst(v, '+') for k, v in per(d['manual']).items()}, 'variant': d['variant']}


def observed(before, rec, after):
    """What the job did, in the observables of the statement."""
    b, a = before['refs'], after['refs']
    st_b = {p['id']: p['state'] for p in before['prs']}
    return {'status': rec.get('status'),
            'deleted': sorted(n for n in b if n not in a),
            'changed': sorted(n for n in a if n in b and a[n] != b[n]),
            'created': sorted(n for n in a if n not in b),
            'declined': sorted(p['id'] for p in after['prs'] if p['state'] == 'DECLINED' and st_b.get(p['id']) == 'OPEN'),
            'pr_changes': sorted((p['id'], st_b.get(p['id']), p['state']) for p in after['prs']
                                 if st_b.get(p['id']) != p['state']),
            'pushes': sum(1 for o in rec.get('ops', []) if o['kind'] in ('push', 'push_all', 'rawpush'))}


FF_CLASS = 'manual commit on an integration branch that is a fast-forward of the source branch'
DST_CLASS = 'manual commit on an integration branch whose tip is contained in its destination branch'


def classify_lost(world, ctxd, tracker, cid, cd_name, before, manual_cids, memo=None):
    """Why the loop did not see this manual commit (class of the finding): every parent is, or sits through plain
    commits on, a commit of the source history / of the destination (no robot merge in between); else a merge."""
    memo = {} if memo is None else memo
    if cid in memo:
        return memo[cid]
    inv = {v: k for k, v in ctxd['ids'].items()}
    sha = inv[cid]
    parents = ctxd['graph'][sha][0]
    dst_tip = before['refs'][cd_name]

    def hidden(p, depth=0):  # the loop accepts p as a parent: source history, destination, or a plain commit
        if p in tracker.src_hist or world.is_ancestor(p, dst_tip):   # (any author) sitting directly on such commits
            return True
        pp = ctxd['graph'].get(p, ([], '', ''))[0]
        return depth < 50 and len(pp) == 1 and hidden(pp[0], depth + 1)
    if parents and all(hidden(p) for p in parents):
        first = parents[0]
        while first not in tracker.src_hist and not world.is_ancestor(first, dst_tip):
            first = ctxd['graph'][first][0][0]
        res = FF_CLASS if first in tracker.src_hist else DST_CLASS
    elif len(parents) > 1:
        res = 'manual merge commit on an integration branch'
    else:
        res = 'manual commit (other shape)'
    memo[cid] = res
    return res


def mon_refuse(world, tracker, ctxd, model, obs, before, after, force, faulted=False):
    """Statement, first sentence: a held manual commit => plain reset refuses, deleting nothing.
    faulted: a git command of the evaluation was made to fail - the job may end in any error, but not in
    ResetComplete, and it must have deleted nothing."""
    out = []
    if model['demand'] != 'MustRefuse':
        return out
    refused = obs['status'] == 'LossyResetWarning' or (faulted and obs['status'] != 'ResetComplete')
    ok = (refused and not obs['deleted'] and not obs['changed'] and not obs['declined'] and obs['pushes'] == 0)
    if ok:
        return out
    inv_n = {v: k for k, v in ctxd['names'].items()}
    if faulted:
        # a git command of the evaluation was made to fail (outside the quantifier of the property): what is demanded
        # then is the purpose of the statement only - no integration branch that HOLDS manual work is deleted or moved
        # (a failed checkout makes Branch.exists() answer False: the reset may then go on without that branch)
        holders = {inv_n[wid] for wid, cids in model['manual'].items() if cids}
        if not (holders & (set(obs['deleted']) | set(obs['changed']))):
            return out
    inv_c = {v: k for k, v in ctxd['ids'].items()}
    cands = dict(tracker.cands)
    for wid, cids in model['manual'].items():
        w = inv_n[wid]
        for c in cids:
            sha = inv_c[c]
            still = any(world.is_ancestor(sha, t) for t in after['refs'].values())
            out.append({'what': classify_lost(world, ctxd, tracker, c, cands[w], before, set(cids)), 'branch': w,
                        'commit': ctxd['graph'][sha][2], 'author': ctxd['graph'][sha][1],
                        'status': obs['status'], 'deleted': obs['deleted'],
                        'still_reachable_from_a_remote_ref': still})
    if not out:
        out.append({'what': 'reset did not refuse although the specification demands it', 'status': obs['status']})
    return out


def mon_scope(world, tracker, obs, before, after):
    """Second sentence: only the integration branches of this pull request are deleted, only its integration pull
    requests are declined; everything else keeps its value."""
    out = []
    own = {w for w, _ in tracker.cands}
    for n in obs['deleted']:
        if n not in own:
            out.append({'what': 'reset deleted a branch that is not an integration branch of this pull request',
                        'ref': n})
    for n in obs['changed']:
        out.append({'what': 'reset moved a branch', 'ref': n})
    for n in obs['created']:
        out.append({'what': 'reset created a branch', 'ref': n})
    prs = {p['id']: p for p in before['prs']}
    for i in obs['declined']:
        if prs[i]['src'] not in own:
            out.append({'what': 'reset declined a pull request that is not an integration pull request of this one',
                        'pr': i, 'src': prs[i]['src']})
    for i, old, new in obs['pr_changes']:
        if new != 'DECLINED':
            out.append({'what': 'reset changed the state of a pull request', 'pr': i, 'from': old, 'to': new})
    if obs['status'] == 'LossyResetWarning' and (obs['deleted'] or obs['declined'] or obs['pushes']):
        out.append({'what': 'reset refused but did not leave everything in place', 'obs': obs})
    return out


REBUILD_BLOCKED = ('Conflict',)


def mon_rebuild(world, tracker, reset_status, rec, after):
    """Last clause: the next evaluation rebuilds the integration branches (all but the first, which is the source
    branch itself)."""
    if reset_status != 'ResetComplete':
        return []
    if rec.get('status') in REBUILD_BLOCKED:
        return []
    missing = [w for w, _ in tracker.cands[1:] if w not in after['refs']]
    if missing:
        return [{'what': 'the evaluation after a completed reset did not rebuild the integration branches',
                 'missing': missing, 'status': rec.get('status')}]
    return []
