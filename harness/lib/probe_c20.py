"""Live probes of the five admin-job handlers (C20): what Facts_C20.v records is *observed on the running jobs*.

The facts of C20 used to be read from the shape of the AST of bert_e/jobs/*.py (a literal in a particular
assignment, a particular if-chain, the source order of the `raise` statements).  Every harmless rewrite (a literal
moved to a module constant, a guard moved into a helper, De Morgan, a renamed local) broke the reading.  Here the
real jobs are run on small sysworld worlds (mock host + real git, harness/lib/sysworld.py) built for the purpose and
the data the model needs is derived from what they did to the remote:

  * which tag a successful delete-branch leaves (archive tag of a development / stabilization / hotfix branch);
  * which start tag create-branch takes a hotfix branch from, which archive tag makes it refuse, which development
    branch a stabilization branch is taken from (candidates on distinct commits / decoys, one at a time);
  * the refusal grid of delete-branch over names of other remote branches (string prefix test, numeric test);
  * which remote branches the queue jobs remove among q/* branches and decoys, which branch they leave checked
    out in the robot's clone (destination of the first queue branch);
  * whether non-canonical spellings are refused;
  * the *raise sites*: for every way a job can end that the model names (Model/AdminJobs.v site_create /
    site_delete, the three exits of the queue jobs) a scenario built so that exactly this exit applies is run and
    the position of the exception in the code (the traceback frames that lie in bert_e/jobs, never message text)
    and its class are recorded.  CORR identifies the exit of a real job through this table, so that moving a guard
    into a helper, reordering functions or routing every refusal through one `fail()` helper changes nothing,
    while a job that ends through another exit than the model predicts is still a mismatch.

One process = one world: every world of probes runs in its own forked process; results are plain data.
"""
import ast
import os
import traceback

from lib import core

JOBS = ('create_branch', 'delete_branch', 'delete_queues', 'rebuild_queues', 'force_merge_queues')


# ------------------------------------------------------------------------------------------ handlers, frames

def job_classes():
    from bert_e.jobs.create_branch import CreateBranchJob
    from bert_e.jobs.delete_branch import DeleteBranchJob
    from bert_e.jobs.delete_queues import DeleteQueuesJob
    from bert_e.jobs.rebuild_queues import RebuildQueuesJob
    from bert_e.jobs.force_merge_queues import ForceMergeQueuesJob
    return {'create_branch': CreateBranchJob, 'delete_branch': DeleteBranchJob, 'delete_queues': DeleteQueuesJob,
            'rebuild_queues': RebuildQueuesJob, 'force_merge_queues': ForceMergeQueuesJob}


def handler_functions():
    """job kind -> the function the dispatcher calls for it (whatever its name, wherever it is defined)."""
    from bert_e.job import JobDispatcher
    res = {}
    for kind, cls in job_classes().items():
        fn = None
        for base in cls.__mro__:
            fn = JobDispatcher.__callbacks__.get(base)
            if fn is not None:
                break
        if fn is None or not hasattr(fn, '__code__'):
            raise ValueError('no handler registered for %s' % cls.__name__)
        res[kind] = fn
    return res


def _rel(path):
    return os.path.relpath(os.path.realpath(path), os.path.realpath(core.REPO)).replace('\\', '/')


_FILES = {}


def handler_files():
    """Files whose traceback frames count: everything under bert_e/jobs plus the modules of the handlers."""
    if core.REPO not in _FILES:
        fs = set(_rel(fn.__code__.co_filename) for fn in handler_functions().values())
        _FILES[core.REPO] = fs
    return _FILES[core.REPO]


def frames_of(exc):
    """((file relative to the tree, line), ...) of the traceback frames inside the admin-job modules, outermost
    first.  The last one is the statement that raised (or let through) the exception that ended the job."""
    out = []
    files = handler_files()
    tb = exc.__traceback__ if exc is not None else None
    while tb is not None:
        rel = _rel(tb.tb_frame.f_code.co_filename)
        if rel in files or rel.startswith('bert_e/jobs/'):
            out.append((rel, tb.tb_lineno))
        tb = tb.tb_next
    return tuple(out)


def install_site_probe(world):
    """Remember the exception that ends BertE.process so that the raise site can be read from its traceback."""
    cls = world.BertE
    if getattr(cls, '_c20_probe', False):
        return
    orig = cls.process

    def process(self, job):
        try:
            return orig(self, job)
        except BaseException as e:
            self._c20_exc = e
            raise
    cls.process = process
    cls._c20_probe = True


# ------------------------------------------------------------------------------------------ one probe job

class Prober(object):
    def __init__(self, world, out):
        self.w = world
        install_site_probe(world)
        self.sites = out['sites']        # {'kind', 'label', 'frames', 'cls', 'what'}
        self.issues = out['issues']      # probes that did not end as the scenario was built to end

    # user-side helpers -----------------------------------------------------------------------
    def push_ref(self, name, frm):
        self.w.ugit('fetch', '-q', 'origin')
        self.w.ugit('push', '-q', 'origin', 'origin/%s:refs/heads/%s' % (frm, name))

    def push_tag(self, tag, frm):
        self.w.ugit('fetch', '-q', 'origin')
        self.w.ugit('tag', '-f', tag, 'origin/' + frm)
        self.w.ugit('push', '-q', 'origin', 'refs/tags/' + tag)

    def job(self, kind, fault=None, **args):
        """Run one admin job; what it did to the remote, how it ended and where."""
        from lib import sysworld
        w = self.w
        w.berte._c20_exc = None
        b_refs, b_tags = w.refs(), w.tags()
        n_pending = len(w.berte.task_queue.queue)
        lg = w.libgit
        checkouts = []
        orig_checkout = lg.Repository.checkout

        def checkout(self_, name, *a, **k):
            checkouts.append(str(name))
            return orig_checkout(self_, name, *a, **k)
        lg.Repository.checkout = checkout
        try:
            rec = w.run_job({'e': 'job_api', 'kind': kind, 'args': dict(args)}, fault=fault)
        finally:
            lg.Repository.checkout = orig_checkout
        exc = getattr(w.berte, '_c20_exc', None)
        a_refs, a_tags = w.refs(), w.tags()
        head = None
        try:
            d = w.berte.git_repo.cmd_directory
            if d and os.path.isdir(os.path.join(d, '.git')):
                rc, out = sysworld._git(d, 'rev-parse', '--abbrev-ref', 'HEAD', check=False)
                head = out.strip() if rc == 0 else None
        except Exception:
            head = None
        res = {'kind': kind, 'args': dict(args), 'status': rec['status'],
               'cls': type(exc).__name__ if exc is not None else None, 'frames': frames_of(exc),
               'refs_before': b_refs, 'tags_before': b_tags,
               'new_refs': {k: v for k, v in a_refs.items() if b_refs.get(k) != v},
               'del_refs': sorted(k for k in b_refs if k not in a_refs),
               'new_tags': {k: v for k, v in a_tags.items() if b_tags.get(k) != v},
               'del_tags': sorted(k for k in b_tags if k not in a_tags),
               'pending': [str(j) for j in list(w.berte.task_queue.queue)[n_pending:]],
               'head': head, 'checkouts': checkouts}
        res['untouched'] = not (res['new_refs'] or res['del_refs'] or res['new_tags'] or res['del_tags'])
        return res

    def site(self, res, label, what, status=None):
        """Record the exit of a probe job under the name the model gives to it.  A probe that ends otherwise than
        its scenario was built for is an issue (GEN fails closed on it), never an exception: the other probes, and
        after them CORR and the monitors, still run."""
        if status is not None and res['status'] != status:
            self.issues.append('probe %r (%s): expected the job to end with %s, it ended with %s (%s)'
                               % (what, label, status, res['status'], res['cls']))
            return
        if not res['frames']:
            self.issues.append('probe %r (%s): the exception that ended the job (%s) has no frame in the admin-job '
                               'modules' % (what, label, res['cls']))
            return
        self.sites.append({'kind': res['kind'], 'label': label, 'frames': res['frames'], 'cls': res['cls'],
                           'what': what})


def refused(res):
    """A refusal: JobFailure and nothing changed on the remote."""
    return res['status'] == 'JobFailure' and res['untouched']


# ------------------------------------------------------------------------------------------ worlds of probes

HOTFIX_START_CANDIDATES = ['.0', '.1', '.00', '-0', '.0.0', '.start']
ARCHIVE_DECOYS = ['.archived', '.archived_hotfix', '.archived_hotfix_branch_', '_archived_hotfix_branch',
                  '.archived_branch', '.0.archived_hotfix_branch']
# names of one other remote branch when development/4.3 is deleted
STAB_GRID = ['stabilization/4.3.1', 'stabilization/04.3.1', 'stabilization/4.03.1', 'stabilization/4.30.1',
             'stabilization/4.3x', 'stabilization/14.3.1', 'stabilization/4.4.1', 'stabilization/5.1.1',
             'xstabilization/4.3.1', 'stabilisation/4.3.1', 'hotfix/4.3.1', 'feature/stabilization/4.3.1',
             'stabilization4.3.1', 'stabilization/4.3']
NON_CANONICAL = [('development/4.4', 'development/04.4'), ('development/4.4', 'development/4.04'),
                 ('stabilization/5.1.0', 'stabilization/5.01.0'), ('stabilization/5.1.0', 'stabilization/5.1.00'),
                 ('stabilization/5.1.0', 'stabilization/005.1.0')]
QUEUE_DECOYS = ['qa/zzz', 'queue/4.3', 'feature/q/4.3', 'Q/4.3', 'q-4.3']


def _plain_world():
    from lib import sysworld
    from props import c20
    return sysworld.World({'layout': c20.LAYOUTS['plain'], 'use_queue': False, 'skip_queue': False})


def world_noqueue_create(out):
    """Queues off, development/4.3 5.1 10.0: the exits of create-branch, canonical spellings, supporting branch."""
    w = _plain_world()
    obs = out['obs']
    try:
        p = Prober(w, out)
        w.apply({'e': 'new_branch', 'branch': 'feature/outside', 'from': 'development/4.3', 'label': 'outside'})
        s = w.snapshot()
        refs = w.refs()

        def fresh():
            w.restore(s)
        # ---- create-branch
        p.site(p.job('create_branch', branch='development/4.3'), 'create_branch:0', 'existing branch', 'NothingToDo')
        fresh()
        p.site(p.job('create_branch', branch='nonsense'), 'create_branch:1', 'not a GWF name', 'JobFailure')
        fresh()
        for n in ('feature/x', 'q/4.4', 'w/5.1/feature/x'):
            p.site(p.job('create_branch', branch=n), 'create_branch:2', 'not a destination branch: ' + n,
                   'JobFailure')
            fresh()
        obs['canonical'] = []
        base = {}
        for canon, non in NON_CANONICAL:
            if canon not in base:
                base[canon] = p.job('create_branch', branch=canon)
                fresh()
                p.site(base[canon], 'create_branch:9', 'created ' + canon, 'JobSuccess')
            r = p.job('create_branch', branch=non)
            fresh()
            if refused(r):
                obs['canonical'].append((non, True))
                p.site(r, 'create_branch:2', 'non-canonical spelling ' + non)
            elif r['status'] == 'JobSuccess':
                obs['canonical'].append((non, False))
            else:
                obs['canonical'].append((non, r['status']))
        # which development branch a stabilization branch is taken from
        obs['supporting'] = []
        tip_of = {v: k for k, v in refs.items() if k.startswith('development/')}
        for stab, nums in (('stabilization/5.1.0', ('5', '1')), ('stabilization/10.0.0', ('10', '0')),
                           ('stabilization/4.3.0', ('4', '3'))):
            r = base.get(stab) or p.job('create_branch', branch=stab)
            fresh()
            obs['supporting'].append((stab, nums, r['status'], tip_of.get(r['new_refs'].get(stab))))
        p.push_tag('4.4', 'development/10.0')
        r = p.job('create_branch', branch='development/4.4')
        fresh()
        obs['create_archive_plain'] = refused(r)
        p.site(r, 'create_branch:3', 'archive tag of the version exists', 'JobFailure')
        p.site(p.job('create_branch', branch='development/4.4', branch_from=refs['feature/outside']),
               'create_branch:4', 'branching point outside the last development branch', 'JobFailure')
        fresh()
        p.site(p.job('create_branch', branch='stabilization/12.7.0'), 'create_branch:5',
               'stabilization branch without its development branch', 'JobFailure')
        fresh()
        p.site(p.job('create_branch', branch='development/4.4', branch_from='development/10.0'), 'create_branch:7',
               'new cascade refused: development branch not included in the next one', 'JobFailure')
        fresh()
        p.site(p.job('create_branch', branch='stabilization/5.1.2'), 'create_branch:7',
               'new cascade refused: stabilization micro', 'JobFailure')
        fresh()
        w.drop_snapshot(s)
    finally:
        w.close()


def world_noqueue_delete(out):
    """Queues off, development/4.3 5.1 10.0 and a hotfix branch: the exits of delete-branch, archive tags, the grid
    of the live-stabilization guard; the queue jobs with queues off."""
    w = _plain_world()
    obs = out['obs']
    try:
        p = Prober(w, out)
        w.apply({'e': 'new_branch', 'branch': 'feature/outside', 'from': 'development/4.3', 'label': 'outside'})
        p.push_ref('hotfix/4.2.9', 'development/4.3')
        s = w.snapshot()
        refs = w.refs()

        def fresh():
            w.restore(s)
        p.site(p.job('delete_branch', branch='nonsense'), 'delete_branch:1', 'not a GWF name', 'JobFailure')
        fresh()
        p.site(p.job('delete_branch', branch='feature/outside'), 'delete_branch:2', 'not a destination branch',
               'JobFailure')
        fresh()
        p.site(p.job('delete_branch', branch='development/7.7'), 'delete_branch:3', 'no such branch', 'NothingToDo')
        fresh()
        obs['archive'] = []
        for n, ver in (('development/5.1', '5.1'), ('development/10.0', '10.0'), ('hotfix/4.2.9', '4.2.9')):
            r = p.job('delete_branch', branch=n)
            fresh()
            p.site(r, 'delete_branch:8', 'deleted ' + n, 'JobSuccess')
            obs['archive'].append((n, ver, sorted(r['new_tags']), r['del_refs'],
                                   [r['new_tags'][t] == refs[n] for t in sorted(r['new_tags'])]))
        p.job('create_branch', branch='stabilization/5.1.0')
        tip = w.refs().get('stabilization/5.1.0')
        r = p.job('delete_branch', branch='stabilization/5.1.0')
        fresh()
        p.site(r, 'delete_branch:8', 'deleted stabilization/5.1.0', 'JobSuccess')
        obs['archive'].append(('stabilization/5.1.0', '5.1.0', sorted(r['new_tags']), r['del_refs'],
                               [r['new_tags'][t] == tip for t in sorted(r['new_tags'])]))
        p.push_tag('5.1', 'development/4.3')
        p.site(p.job('delete_branch', branch='development/5.1'), 'delete_branch:4',
               'archive tag already there, elsewhere', 'JobFailure')
        fresh()
        p.push_tag('5.1', 'development/5.1')
        r = p.job('delete_branch', branch='development/5.1')
        fresh()
        p.site(r, 'delete_branch:8', 'resumed: archive tag on the tip', 'JobSuccess')
        r = p.job('delete_branch', branch='development/5.1',
                  fault={'mode': 'reject', 'at': 1, 'ref': 'development/5.1'})
        fresh()
        p.site(r, 'delete_branch:0', 'the server refuses the deletion', 'JobFailure')
        # the archive tag of the hotfix branch, elsewhere: `git tag` fails in the clone
        hot = [o for o in obs['archive'] if o[0] == 'hotfix/4.2.9'][0][2]
        if len(hot) == 1:
            p.push_tag(hot[0], 'development/10.0')
            p.site(p.job('delete_branch', branch='hotfix/4.2.9'), 'delete_branch:7',
                   'the archive tag cannot be created', 'JobFailure')
            fresh()
        # the grid of the live-stabilization guard
        r = p.job('delete_branch', branch='development/4.3')
        fresh()
        p.site(r, 'delete_branch:8', 'deleted development/4.3', 'JobSuccess')
        obs['stab_grid'] = []
        for x in STAB_GRID:
            p.push_ref(x, 'development/10.0')
            r = p.job('delete_branch', branch='development/4.3')
            fresh()
            if refused(r):
                obs['stab_grid'].append((x, True))
                p.site(r, 'delete_branch:5', 'live stabilization branch ' + x)
            elif r['status'] == 'JobSuccess':
                obs['stab_grid'].append((x, False))
            else:
                obs['stab_grid'].append((x, r['status']))
        # ---- queue jobs, queues off
        for k in ('delete_queues', 'rebuild_queues', 'force_merge_queues'):
            p.site(p.job(k), k + ':0', 'queues disabled', 'NotMyJob')
            fresh()
        w.drop_snapshot(s)
    finally:
        w.close()


def _hotfix_world():
    from lib import sysworld
    from props import c20
    return sysworld.World({'layout': c20.LAYOUTS['hotfix'], 'use_queue': True, 'skip_queue': False})


def world_hotfix_tags(out):
    """Queues on (nothing queued), development/4.3 5.1 and hotfix/4.3.17: the tags of hotfix branches, the queue
    delete-branch looks for, the queue jobs without queue branches."""
    w = _hotfix_world()
    obs = out['obs']
    try:
        p = Prober(w, out)
        s0 = w.snapshot()
        refs = w.refs()
        for k in ('delete_queues', 'rebuild_queues'):
            p.site(p.job(k), k + ':1', 'no queue branch', 'JobSuccess')
            w.restore(s0)
        r = p.job('create_branch', branch='development/6.0')
        w.restore(s0)
        p.site(r, 'rebuild_queues:1', 'newest development branch created, no queue to rebuild', 'JobSuccess')
        # delete-branch looks for the queue of the version: names checked out that are not remote branches
        r = p.job('delete_branch', branch='development/5.1')
        w.restore(s0)
        p.site(r, 'delete_branch:8', 'deleted development/5.1 (queues on)', 'JobSuccess')
        obs['q_checkouts'] = ('5.1', sorted(set(n for n in r['checkouts'] if n not in refs)))
        # archive tag of a hotfix branch
        r = p.job('delete_branch', branch='hotfix/4.3.17')
        w.restore(s0)
        p.site(r, 'delete_branch:8', 'deleted hotfix/4.3.17', 'JobSuccess')
        obs['archive'] = [('hotfix/4.3.17', '4.3.17', sorted(r['new_tags']), r['del_refs'],
                           [r['new_tags'][t] == refs['hotfix/4.3.17'] for t in sorted(r['new_tags'])])]
        # start tag of a new hotfix branch: one candidate at a time
        obs['hotfix_start'] = []
        for c in HOTFIX_START_CANDIDATES:
            p.push_tag('4.3.18' + c, 'development/5.1')
            r = p.job('create_branch', branch='hotfix/4.3.18')
            w.restore(s0)
            ok = r['status'] == 'JobSuccess' and r['new_refs'].get('hotfix/4.3.18') == refs['development/5.1']
            obs['hotfix_start'].append((c, ok, r['status']))
            if ok:
                p.site(r, 'create_branch:9', 'created hotfix/4.3.18 from 4.3.18' + c)
        # archive tag that makes create-branch refuse a hotfix branch
        starts = [c for c, ok, _ in obs['hotfix_start'] if ok]
        hot = obs['archive'][0][2]
        if len(starts) == 1 and len(hot) == 1 and hot[0].startswith('4.3.17'):
            cands = [hot[0][len('4.3.17'):]] + [d for d in ARCHIVE_DECOYS if d != hot[0][len('4.3.17'):]]
            p.push_tag('4.3.18' + starts[0], 'development/5.1')
            s1 = w.snapshot()
            obs['create_archive'] = []
            for c in cands + ['']:
                p.push_tag('4.3.18' + c, 'development/4.3')
                r = p.job('create_branch', branch='hotfix/4.3.18')
                w.restore(s1)
                obs['create_archive'].append((c, True if refused(r) else (False if r['status'] == 'JobSuccess'
                                                                           else r['status'])))
                if refused(r):
                    p.site(r, 'create_branch:3', 'archive tag 4.3.18%s exists' % c)
            w.drop_snapshot(s1)
            w.restore(s0)
        w.drop_snapshot(s0)
    finally:
        w.close()


def world_queued(out):
    """Queues on, one pull request queued on development/4.3 (and 5.1): queued data, the queue jobs among decoys."""
    from props import c20
    w = _hotfix_world()
    obs = out['obs']
    try:
        p = Prober(w, out)
        c20.run_setup(w, [{'s': 'queue_pr', 'src': 'bugfix/TEST-1', 'dst': 'development/4.3'}])
        s2 = w.snapshot()
        p.site(p.job('create_branch', branch='development/4.4'), 'create_branch:6',
               'queued pull requests would need a new integration branch', 'JobFailure')
        w.restore(s2)
        r = p.job('create_branch', branch='development/6.0')
        w.restore(s2)
        p.site(r, 'rebuild_queues:2', 'newest development branch created, queues rebuilt', 'JobSuccess')
        p.site(p.job('delete_branch', branch='development/4.3'), 'delete_branch:6', 'queued pull request on the branch',
               'JobFailure')
        w.restore(s2)
        for n in QUEUE_DECOYS:
            p.push_ref(n, 'development/4.3')
        s3 = w.snapshot()
        obs['queue_scan'] = []
        for k in ('rebuild_queues', 'delete_queues'):
            r = p.job(k)
            w.restore(s3)
            p.site(r, k + ':2', 'queues removed', 'JobSuccess')
            obs['queue_scan'].append((k, sorted(r['refs_before']), r['del_refs'], sorted(r['new_refs']), r['head']))
        for s in (s2, s3):
            w.drop_snapshot(s)
    finally:
        w.close()


def world_destinations(out):
    """Queues on, every kind of destination branch; one hand-made queue branch at a time: which branch the queue
    jobs leave checked out in the robot's clone."""
    from lib import sysworld
    from props import c20
    w = sysworld.World({'layout': c20.LAYOUTS['mixed'], 'use_queue': True, 'skip_queue': False})
    obs = out['obs']
    obs['queue_dest'] = []
    try:
        p = Prober(w, out)
        s = w.snapshot()
        for q, frm in (('q/4.3.16.1', 'hotfix/4.3.16'), ('q/5.1.4', 'stabilization/5.1.4'),
                       ('q/5.1', 'development/5.1'), ('q/10', 'development/10')):
            for k in ('rebuild_queues', 'delete_queues'):
                p.push_ref(q, frm)
                r = p.job(k)
                w.restore(s)
                p.site(r, k + ':2', 'queue %s removed' % q, 'JobSuccess')
                obs['queue_dest'].append((k, q, r['head'], r['del_refs']))
        w.drop_snapshot(s)
    finally:
        w.close()


WORLDS = (('noqueue_create', world_noqueue_create), ('noqueue_delete', world_noqueue_delete),
          ('hotfix_tags', world_hotfix_tags), ('queued', world_queued), ('destinations', world_destinations))


def _run_world(name):
    """One world of probes; whatever was observed before something went wrong is kept."""
    os.environ['PYTHONHASHSEED'] = '0'
    out = {'world': name, 'sites': [], 'obs': {}, 'issues': [], 'error': None}
    try:
        dict(WORLDS)[name](out)
    except Exception:
        out['error'] = traceback.format_exc()[-3000:]
    return out


def run_probes(parallel=True):
    """-> {'sites': [...], 'obs': {world: {...}}, 'errors': [...]}"""
    names = [n for n, _ in WORLDS]
    if parallel:
        from multiprocessing import get_context
        with get_context('fork').Pool(len(names)) as pool:
            results = pool.map(_run_world, names, chunksize=1)
    else:
        results = [_run_world(n) for n in names]
    out = {'sites': [], 'obs': {}, 'errors': []}
    for r in results:
        out['sites'] += r['sites']
        out['obs'][r['world']] = r['obs']
        out['errors'] += ['%s: %s' % (r['world'], i) for i in r['issues']]
        if r['error']:
            out['errors'].append('%s: %s' % (r['world'], r['error']))
    return out


# ------------------------------------------------------------------------------------------ the table of sites

class SiteTable(object):
    """exit of a real job (traceback frames in the admin-job modules) -> the name(s) the probes gave to it."""

    def __init__(self, sites):
        self.full = {}
        self.deep = {}
        for s in sites:
            fr = tuple(tuple(f) for f in s['frames'])
            self.full.setdefault((s['kind'], fr), set()).add(s['label'])
            self.deep.setdefault(fr[-1], set()).add(s['label'])

    def labels(self, kind, frames):
        frames = tuple(tuple(f) for f in frames)
        if not frames:
            return set()
        got = self.full.get((kind, frames))
        if got:
            return got
        # the same statement reached through another path (a helper called from two places): only when the probes
        # know this statement under one name
        got = self.deep.get(frames[-1], set())
        return got if len(got) == 1 else set()

    def site(self, kind, exc, predicted=None):
        """'<handler>:<ordinal>' of the exit of this job; None when the exception does not come from the admin-job
        modules; 'unknown:<file>:<line>' for an exit no probe has seen."""
        frames = frames_of(exc)
        if not frames:
            return None
        got = self.labels(kind, frames)
        if not got:
            return None if not isinstance(exc, _berte_exceptions()) else 'unknown:%s:%d' % frames[-1]
        if predicted in got:
            return predicted
        return sorted(got)[0]


def _berte_exceptions():
    from bert_e import exceptions as ex
    return (ex.NothingToDo, ex.JobFailure, ex.JobSuccess, ex.NotMyJob)


# ------------------------------------------------------------------------------------------ AST, tolerant

def _module_tree(rel):
    return ast.parse(open(os.path.join(core.REPO, rel)).read())


def _toplevel_functions(tree):
    return {n.name: n for n in tree.body if isinstance(n, ast.FunctionDef)}


def _sibling_imports(tree, rel):
    """name -> (file, original name) for `from .mod import name` / `from bert_e.jobs.mod import name`."""
    res = {}
    pkg = os.path.dirname(rel)
    for n in tree.body:
        if isinstance(n, ast.ImportFrom) and n.module:
            if n.level == 1:
                path = os.path.join(pkg, *n.module.split('.')) + '.py'
            elif n.level == 0 and n.module.startswith('bert_e.jobs.'):
                path = n.module.replace('.', '/') + '.py'
            else:
                continue
            if os.path.exists(os.path.join(core.REPO, path)):
                for a in n.names:
                    res[a.asname or a.name] = (path, a.name)
    return res


def closure(kind):
    """The handler of a job kind and the helpers it calls by name (same module, or imported from a sibling
    module of bert_e/jobs), transitively: [(file, FunctionDef)].  Other handlers are never entered."""
    fns = handler_functions()
    fn = fns[kind]
    rel = _rel(fn.__code__.co_filename)
    handler_names = set((_rel(f.__code__.co_filename), f.__name__) for f in fns.values())
    trees = {}

    def tree_of(r):
        if r not in trees:
            trees[r] = _module_tree(r)
        return trees[r]
    start = _toplevel_functions(tree_of(rel)).get(fn.__name__)
    if start is None:
        raise ValueError('handler %s not found in %s' % (fn.__name__, rel))
    seen, todo, out = set(), [(rel, start)], []
    while todo:
        r, node = todo.pop()
        if (r, node.name) in seen:
            continue
        seen.add((r, node.name))
        out.append((r, node))
        tops = _toplevel_functions(tree_of(r))
        imps = _sibling_imports(tree_of(r), r)
        for n in ast.walk(node):
            name = None
            if isinstance(n, ast.Call) and isinstance(n.func, ast.Name):
                name = n.func.id
            elif isinstance(n, ast.Name) and isinstance(n.ctx, ast.Load):
                name = n.id      # a helper passed around as a value
            if name is None:
                continue
            if name in tops and (r, name) not in handler_names:
                todo.append((r, tops[name]))
            elif name in imps:
                r2, orig = imps[name]
                t2 = _toplevel_functions(tree_of(r2))
                if orig in t2 and (r2, orig) not in handler_names:
                    todo.append((r2, t2[orig]))
    return out


def raise_statements(kind):
    """[(file, first line, last line, exception class)] of the `raise <something>` statements of the closure of a
    handler (a bare `raise` passes on an exception made elsewhere: not a site)."""
    res = []
    for rel, fn in closure(kind):
        for n in ast.walk(fn):
            if isinstance(n, ast.Raise) and n.exc is not None:
                call = n.exc.func if isinstance(n.exc, ast.Call) else n.exc
                cls = call.attr if isinstance(call, ast.Attribute) else getattr(call, 'id', None)
                if cls is None:
                    raise ValueError('unexpected raise in %s:%d' % (rel, n.lineno))
                res.append((rel, n.lineno, getattr(n, 'end_lineno', n.lineno) or n.lineno, cls))
    return sorted(set(res))


def closure_strings(kind):
    """String constants of the closure of a handler, plus the module-level string constants it names."""
    out = []
    for rel, fn in closure(kind):
        tree = _module_tree(rel)
        consts = {}
        for n in tree.body:
            if isinstance(n, ast.Assign) and isinstance(n.value, ast.Constant) and isinstance(n.value.value, str):
                for t in n.targets:
                    if isinstance(t, ast.Name):
                        consts[t.id] = n.value.value
        doc = ast.get_docstring(fn)
        for n in ast.walk(fn):
            if isinstance(n, ast.Constant) and isinstance(n.value, str) and n.value != doc:
                out.append(n.value)
            elif isinstance(n, ast.Name) and n.id in consts:
                out.append(consts[n.id])
    return out
