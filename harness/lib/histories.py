"""Seeded generator of system-level histories and the runner that replays them on a sysworld.World.

A history is {'cfg': {...}, 'events': [event dicts]} - fully JSON-able and replayable.  Events that refer to a
ref ('build', 'job_commit') resolve it to the current tip at run time, so a history stays meaningful when
shas change.  The generator is "mostly valid": it drives pull requests through their life cycle (evaluate,
report builds on the current tips, evaluate, report builds on the queue tips, evaluate the queue) and mixes in
noise (extra pushes, rebases, approvals, option/command comments, stale or bad build reports, admin jobs).
"""
import random

from . import sysworld
from .sysworld import ADMIN, AUTHOR, PEER

LAYOUTS = [
    [[4, 3, None, []]],
    [[4, 3, None, []], [5, 1, None, []]],
    [[4, 3, 18, []], [5, 1, None, []]],
    [[4, 3, None, []], [5, 1, 4, []], [10, 0, None, []]],
    [[4, 3, 18, []], [5, 1, 4, []], [10, 0, None, []]],
    [[4, 3, None, []], [5, 1, None, []], [5, None, None, []]],
    [[4, 3, 18, []], [4, None, None, []], [5, 1, None, []]],
    [[4, 3, None, [17]], [5, 1, None, []]],
    [[4, 3, 18, [16]], [5, 1, 4, []], [10, None, None, []]],
]

API_BODIES = [{}, {'build_key': ''}, {'build_key': 'nightly'}, {'bypass_build_status': True, 'bypass_peer_approval': True},
              {'required_peer_approvals': 0, 'need_author_approval': False, 'required_leader_approvals': 0},
              {'admins': [AUTHOR, PEER]}, {'use_queue': False}, {'jira_keys': [], 'jira_account_url': ''},
              {'no_comment': True}, {'approve': True, 'bypass_author_approval': True},
              {'pr_author_options': {AUTHOR: {'bypass_build_status': True, 'bypass_peer_approval': True}}},
              {'disable_version_checks': True, 'bypass_incompatible_branch': True}]

STATES = ['SUCCESSFUL', 'FAILED', 'STOPPED', 'INPROGRESS', 'NOTSTARTED']


def dest_names(layout):
    res, hot = [], []
    for major, minor, stab, hfs in layout:
        v = sysworld.version_name([major, minor])
        if minor is not None:
            for hf in hfs:
                hot.append('hotfix/%d.%d.%d' % (major, minor, hf))
            if stab is not None:
                res.append('stabilization/%s.%d' % (v, stab))
        res.append('development/%s' % v)
    return res, hot


def gen_cfg(rng, mode=None):
    layout = rng.choice(LAYOUTS)
    mode = mode or rng.choice(['queue', 'queue', 'noqueue', 'skip'])
    return {
        'layout': layout, 'use_queue': mode != 'noqueue', 'skip_queue': mode == 'skip',
        'no_octopus': rng.random() < 0.3, 'peers': rng.choice([0, 0, 0, 1]), 'leaders': 0,
        'need_author': False, 'build_key': 'pre-merge' if rng.random() < 0.93 else '',
        'always_prs': rng.random() < 0.7, 'always_branches': rng.random() < 0.85, 'cmd_line_options': [],
    }


class Gen:
    """Stateful random walk producing events one at a time (it sees the world's refs through `view`)."""

    def __init__(self, rng, cfg, max_prs=3, admin_jobs=True, extra=None):
        self.rng, self.cfg = rng, cfg
        self.dests, self.hot = dest_names(cfg['layout'])
        self.prs = []        # {'id','src','dst','stage'}
        self.n = 0
        self.max_prs = max_prs
        self.admin_jobs = admin_jobs
        self.extra = extra or {}
        self.files = ['shared_a', 'shared_b']
        self.api_rng = random.Random(repr(sorted(cfg.items())))

    def _label(self):
        self.n += 1
        return 'c%d' % self.n

    def new_pr(self):
        r = self.rng
        i = len(self.prs) + 1
        dst = r.choice(self.dests + self.hot) if r.random() < 0.85 else r.choice(self.dests)
        prefix = r.choice(['bugfix', 'feature', 'improvement'])
        src = '%s/TEST-%d%s' % (prefix, i, r.choice(['', '-fix', '-w-5.1', '/sub']))
        if self.prs and r.random() < 0.2:
            # a name that merely extends the name of an earlier pull request's branch (TEST-1 / TEST-12, foo / foo-bar)
            src = self.prs[0]['src'] + r.choice(['2', '-bis', '0'])
        ev = {'e': 'create_pr', 'src': src, 'dst': dst, 'label': self._label()}
        if r.random() < 0.2:     # two pull requests touching the same file: a conflict somewhere later
            ev['file'] = r.choice(self.files)
            ev['content'] = 'content of %s\n' % src
        self.prs.append({'id': None, 'src': src, 'dst': dst, 'stage': 0})
        return ev

    def targets_of(self, pr):
        if pr['dst'].startswith('hotfix/'):
            return [pr['dst']]
        i = self.dests.index(pr['dst'])
        return [pr['dst']] + [d for d in self.dests[i + 1:] if d.startswith('development/')]

    def tips_of(self, pr, refs):
        names = [pr['src']]
        for t in self.targets_of(pr)[1:]:
            names.append('w/%s/%s' % (t.split('/', 1)[1], pr['src']))
        return [n for n in names if n in refs]

    def qtips_of(self, pr, refs):
        return [n for n in refs if n.startswith('q/w/%s/' % pr['id']) and n.endswith('/' + pr['src'])]

    def next_events(self, refs, prs_state):
        """Return the next few events given the current remote refs and PR states."""
        r = self.rng
        open_prs = [p for p in self.prs if p['id'] is not None and prs_state.get(p['id']) == 'OPEN']
        roll = r.random()
        if (not self.prs or (len(self.prs) < self.max_prs and roll < 0.22)):
            return [self.new_pr()]
        if not open_prs:
            if len(self.prs) < self.max_prs:
                return [self.new_pr()]
            p = r.choice(self.prs)
            return [{'e': 'job_pr', 'pr': p['id']}] if p['id'] else []
        p = r.choice(open_prs)
        roll = r.random()
        good = r.random() < 0.8
        if roll < 0.30:      # evaluate the pull request
            ar = self.api_rng      # its own stream: the main one stays what it was before this event kind existed
            if ar.random() < 0.15:
                # through the API (POST /api/pull-requests/<id>, open to every authenticated user), with a JSON body
                # that names settings of the instance: the body of that endpoint carries no meaning
                body = ar.choice(API_BODIES)
                return [{'e': 'job_api', 'kind': 'eval_pr', 'args': {'pr_id': p['id']}, 'body': body,
                         'user': ar.choice([AUTHOR, PEER])}]
            return [{'e': 'job_pr', 'pr': p['id']}]
        if roll < 0.50:      # CI reports on the integration tips, then the webhook-triggered evaluation
            evs = []
            tips = self.tips_of(p, refs)
            for n in tips:
                st = 'SUCCESSFUL' if good or r.random() < 0.5 else r.choice(STATES)
                evs.append({'e': 'build', 'ref': n, 'state': st})
            r.shuffle(evs)
            if tips:
                evs.append({'e': 'job_commit', 'ref': r.choice(tips)})
            return evs
        if roll < 0.68:      # CI reports on the queue tips, then the evaluation of the queue
            q = self.qtips_of(p, refs)
            allq = [n for n in refs if n.startswith('q/w/')]
            evs = []
            for n in (allq if r.random() < 0.5 else q):
                st = 'SUCCESSFUL' if good or r.random() < 0.6 else r.choice(STATES)
                evs.append({'e': 'build', 'ref': n, 'state': st})
            r.shuffle(evs)
            if q or allq:
                evs.append({'e': 'job_commit', 'ref': r.choice(q or allq)})
            return evs
        if roll < 0.74:
            return [{'e': 'push', 'branch': p['src'], 'label': self._label()}]
        if roll < 0.78:
            return [{'e': r.choice(['amend', 'rebase']), 'branch': p['src'], 'label': self._label(),
                     'onto': p['dst']}]
        if roll < 0.83:
            return [{'e': 'approve', 'user': r.choice([PEER, ADMIN, AUTHOR]), 'pr': p['id']}]
        if roll < 0.90:
            text = r.choice(['@bert-e bypass_build_status', '@bert-e bypass_peer_approval', '@bert-e wait',
                             '@bert-e reset', '@bert-e force_reset', '/approve', '@bert-e unanimity',
                             '@bert-e create_pull_requests', '@bert-e create_integration_branches',
                             '@bert-e no_octopus', '@bert-e help', '@bert-e status', 'nice work',
                             '@bert-e after_pull_request=%d' % r.randint(1, 4), '@bert-e bypass_jira_check',
                             '@bert-e bypass_author_approval bypass_leader_approval',
                             '@bert-e bypass_build_status=False', '/bypass_build_status=OFF'])
            user = ADMIN if 'bypass' in text and r.random() < 0.8 else r.choice([AUTHOR, ADMIN, PEER])
            if text == '/approve':
                user = AUTHOR
            return [{'e': 'comment', 'user': user, 'pr': p['id'], 'text': text}, {'e': 'job_pr', 'pr': p['id']}]
        if roll < 0.92:
            return [{'e': 'delete_comment', 'user': r.choice([AUTHOR, ADMIN]), 'pr': p['id'], 'idx': -1},
                    {'e': 'job_pr', 'pr': p['id']}]
        if roll < 0.94:
            return [{'e': 'decline', 'pr': p['id']}, {'e': 'job_pr', 'pr': p['id']}]
        if roll < 0.96:      # a manual commit on an integration branch
            ws = [n for n in self.tips_of(p, refs) if n.startswith('w/')]
            if ws:
                return [{'e': 'push', 'branch': r.choice(ws), 'label': self._label(), 'as': AUTHOR}]
            return []
        if self.admin_jobs and r.random() < 0.45:
            return [self.branch_job(refs)]
        if self.admin_jobs and self.cfg['use_queue']:
            kind = r.choice(['rebuild_queues', 'delete_queues', 'force_merge_queues'])
            return [{'e': 'job_api', 'kind': kind}]
        return [{'e': 'job_pr', 'pr': p['id']}]

    def branch_job(self, refs):
        """A create-branch / delete-branch admin job on a name around the existing cascade."""
        r = self.rng
        devs = []
        for n in refs:
            if n.startswith('development/'):
                v = n.split('/', 1)[1].split('.')
                devs.append((int(v[0]), int(v[1]) if len(v) > 1 else None, n))
        devs.sort(key=lambda t: (t[0], 10 ** 6 if t[1] is None else t[1]))
        if r.random() < 0.7 or not devs:
            cands = []
            for major, minor, _n in devs:
                if minor is not None:
                    cands += ['development/%d.%d' % (major, minor + 1), 'development/%d.%d' % (major + 1, 0),
                              'stabilization/%d.%d.%d' % (major, minor, r.choice([0, 1, 5, 19])),
                              'hotfix/%d.%d.%d' % (major, minor, r.choice([0, 17]))]
                    if minor > 0:
                        cands.append('development/%d.%d' % (major, minor - 1))
            cands += ['development/3.9', 'development/99.0']
            args = {'branch': r.choice(cands)}
            roll = r.random()
            if roll < 0.2 and devs:
                args['branch_from'] = r.choice(devs)[2]
            elif roll < 0.3:
                srcs = [p['src'] for p in self.prs if p['src'] in refs]
                if srcs:
                    args['branch_from'] = refs[r.choice(srcs)][:12]
            return {'e': 'job_api', 'kind': 'create_branch', 'args': args}
        dels = [n for n in refs if n.startswith('stabilization/') or n.startswith('hotfix/')] + [d[2] for d in devs[:1]]
        return {'e': 'job_api', 'kind': 'delete_branch', 'args': {'branch': r.choice(dels)}}


def run_history(world, events, on_job=None, on_event=None, fault_for=None):
    """Replay a fixed event list.  on_job(world, ev, before_dump, job_record, after_dump) after every job."""
    log = []
    for ev in events:
        if ev['e'].startswith('job_'):
            before = world.dump()
            fault = fault_for(world, ev, before) if fault_for else None
            rec = world.run_job(ev, fault=fault)
            rec['fault'] = fault or rec.get('fault_used')
            after = world.dump()
            log.append({'ev': ev, 'status': rec['status']})
            if on_job:
                on_job(world, ev, before, rec, after)
            for extra in world.drain_iter():
                after2 = world.dump()
                if on_job:
                    on_job(world, {'e': 'drained', 'job': extra['job']}, after, extra, after2)
                after = after2
        else:
            try:
                res = world.apply(ev)
            except Exception as exc:     # a user event that cannot apply (branch vanished...) is skipped
                res = {'skipped': str(exc)[:200]}
            log.append({'ev': ev, 'res': res})
            if on_event:
                on_event(world, ev, res)
    return log


def generate_and_run(seed, length=14, mode=None, on_job=None, cfg_override=None, max_prs=3, admin_jobs=True,
                     fault_for=None):
    """Generate a history while running it (the generator looks at the live refs).  Returns (history, log)."""
    rng = random.Random(seed)
    cfg = gen_cfg(rng, mode)
    if cfg_override:
        cfg.update(cfg_override)
    world = sysworld.World(cfg)
    events, log = [], []
    try:
        gen = Gen(rng, cfg, max_prs=max_prs, admin_jobs=admin_jobs)
        steps = 0
        while steps < length:
            refs = world.refs()
            prs_state = {p['id']: p['state'] for p in world.prs()}
            evs = gen.next_events(refs, prs_state)
            if not evs:
                steps += 1
                continue
            for ev in evs:
                events.append(ev)
                sub = run_history(world, [ev], on_job=on_job, fault_for=fault_for)
                log.extend(sub)
                if ev['e'] == 'create_pr' and 'pr' in sub[0].get('res', {}):
                    gen.prs[-1]['id'] = sub[0]['res']['pr']
                steps += 1
    finally:
        world.close()
    return {'cfg': cfg, 'events': events, 'seed': seed}, log


def replay(history, on_job=None, fault_for=None):
    world = sysworld.World(history['cfg'])
    try:
        return run_history(world, history['events'], on_job=on_job, fault_for=fault_for)
    finally:
        world.close()


def lifecycle_and_run(seed, on_job=None, mode=None, cfg_override=None, n_prs=None, fault_for=None):
    """'Happy path' family: several pull requests opened before any is merged (so later ones are behind their
    destination), then each is driven to its merge in a random order with mostly green builds.  Produces many
    destination movements with non-fast-forward first targets, queue merges of several pull requests, etc."""
    rng = random.Random(seed * 7919 + 13)
    cfg = gen_cfg(rng, mode)
    cfg.update({'peers': 0, 'leaders': 0, 'need_author': False, 'build_key': 'pre-merge'})
    if cfg_override:
        cfg.update(cfg_override)
    world = sysworld.World(cfg)
    events, log = [], []

    def do(ev):
        events.append(ev)
        sub = run_history(world, [ev], on_job=on_job, fault_for=fault_for)
        log.extend(sub)
        return sub[0]
    try:
        gen = Gen(rng, cfg)
        n = n_prs or rng.choice([2, 2, 3])
        for _ in range(n):
            ev = gen.new_pr()
            if rng.random() < 0.5 and gen.prs[:-1]:
                ev['dst'] = gen.prs[0]['dst']            # same destination as the first one
                gen.prs[-1]['dst'] = ev['dst']
            r = do(ev)
            gen.prs[-1]['id'] = r.get('res', {}).get('pr')
        order = list(gen.prs)
        rng.shuffle(order)
        for rounds in range(2):
            for p in order:
                if p['id'] is None:
                    continue
                do({'e': 'job_pr', 'pr': p['id']})
                for nme in gen.tips_of(p, world.refs()):
                    st = 'SUCCESSFUL' if rng.random() < 0.9 else rng.choice(STATES)
                    do({'e': 'build', 'ref': nme, 'state': st})
                do({'e': 'job_pr', 'pr': p['id']})
                if rng.random() < 0.3:
                    continue                                 # leave it queued for a while
                q = sorted(n for n in world.refs() if n.startswith('q/w/'))
                for nme in q:
                    st = 'SUCCESSFUL' if rng.random() < 0.85 else rng.choice(STATES)
                    do({'e': 'build', 'ref': nme, 'state': st})
                if q:
                    do({'e': 'job_commit', 'ref': rng.choice(q)})
            if rounds == 0 and rng.random() < 0.5:
                p = rng.choice(order)
                do({'e': 'push', 'branch': p['src'], 'label': 'late%d' % seed})
        q = sorted(n for n in world.refs() if n.startswith('q/w/'))
        for nme in q:
            do({'e': 'build', 'ref': nme, 'state': 'SUCCESSFUL'})
        if q:
            do({'e': 'job_commit', 'ref': q[-1]})
    finally:
        world.close()
    return {'cfg': cfg, 'events': events, 'seed': seed, 'family': 'lifecycle'}, log


def backport_and_run(seed, on_job=None, mode=None, cfg_override=None, fault_for=None):
    """Back-port family: a pull request whose source branch was cut from the earliest development branch is merged
    into a LATER branch of the cascade; the earlier branch advances through another pull request; then a second pull
    request from the same source branch targets the earlier branch (so every later destination already contains the
    source tip while the first target needs a real merge commit).  Each pull request is driven to its merge."""
    rng = random.Random(seed * 104729 + 7)
    cfg = gen_cfg(rng, mode if mode else rng.choice(['noqueue', 'skip', 'noqueue', 'queue']))
    multi = [l for l in LAYOUTS if sum(1 for d in dest_names(l)[0] if d.startswith('development/')) >= 2]
    if sum(1 for d in dest_names(cfg['layout'])[0] if d.startswith('development/')) < 2:
        cfg['layout'] = rng.choice(multi)
    cfg.update({'peers': 0, 'leaders': 0, 'need_author': False, 'build_key': 'pre-merge'})
    if cfg_override:
        cfg.update(cfg_override)
    world = sysworld.World(cfg)
    events, log = [], []

    def do(ev):
        events.append(ev)
        sub = run_history(world, [ev], on_job=on_job, fault_for=fault_for)
        log.extend(sub)
        return sub[0]
    try:
        gen = Gen(rng, cfg)
        devs = [d for d in gen.dests if d.startswith('development/')]
        if len(devs) < 2:        # cfg_override imposed a single-branch layout: nothing to back-port
            return lifecycle_and_run(seed, on_job=on_job, mode=mode, cfg_override=cfg_override, fault_for=fault_for)
        lo = rng.randrange(len(devs) - 1)
        hi = rng.randrange(lo + 1, len(devs))

        def drive(p):
            for _round in range(2):
                do({'e': 'job_pr', 'pr': p['id']})
                for nme in gen.tips_of(p, world.refs()):
                    do({'e': 'build', 'ref': nme, 'state': 'SUCCESSFUL' if rng.random() < 0.92 else rng.choice(STATES)})
                do({'e': 'job_pr', 'pr': p['id']})
                q = sorted(n for n in world.refs() if n.startswith('q/w/'))
                for nme in q:
                    do({'e': 'build', 'ref': nme, 'state': 'SUCCESSFUL'})
                if q:
                    do({'e': 'job_commit', 'ref': q[-1]})
                st = {x['id']: x['state'] for x in world.prs()}
                if st.get(p['id']) != 'OPEN':
                    break

        def open_pr(src, dst, **kw):
            ev = dict({'e': 'create_pr', 'src': src, 'dst': dst, 'label': gen._label()}, **kw)
            p = {'id': do(ev).get('res', {}).get('pr'), 'src': src, 'dst': dst, 'stage': 0}
            gen.prs.append(p)
            return p
        first = open_pr('bugfix/TEST-1', devs[hi], **{'from': devs[lo]})
        if first['id'] is not None:
            drive(first)
        for i in range(rng.choice([1, 1, 2])):
            other = open_pr('feature/TEST-%d' % (i + 2), rng.choice(devs[:lo + 1]))
            if other['id'] is not None:
                drive(other)
        if rng.random() < 0.25:
            do({'e': 'push', 'branch': first['src'], 'label': gen._label()})
        back = open_pr(first['src'], devs[lo], reuse=True)
        if back['id'] is not None:
            drive(back)
    finally:
        world.close()
    return {'cfg': cfg, 'events': events, 'seed': seed, 'family': 'backport'}, log


def branch_jobs_and_run(seed, on_job=None, mode=None, cfg_override=None, fault_for=None):
    """Admin-job family: on a cascade whose branches have diverged (a pull request merged first), a series of
    create-branch jobs with every kind of branching point (automatic, each existing destination branch, a commit
    of a feature branch) and a few delete-branch / queue jobs."""
    rng = random.Random(seed * 104729 + 7)
    cfg = gen_cfg(rng, mode)
    cfg.update({'peers': 0, 'leaders': 0, 'need_author': False, 'build_key': ''})
    if cfg_override:
        cfg.update(cfg_override)
    world = sysworld.World(cfg)
    events, log = [], []

    def do(ev):
        events.append(ev)
        sub = run_history(world, [ev], on_job=on_job, fault_for=fault_for)
        log.extend(sub)
        return sub[0]
    try:
        gen = Gen(rng, cfg)
        # make the destination branches differ from each other: merge one pull request on the oldest one
        ev = gen.new_pr()
        ev['dst'] = gen.dests[0]
        gen.prs[-1]['dst'] = ev['dst']
        r = do(ev)
        gen.prs[-1]['id'] = r.get('res', {}).get('pr')
        for _ in range(3):
            do({'e': 'job_pr', 'pr': gen.prs[-1]['id']})
            q = sorted(n for n in world.refs() if n.startswith('q/w/'))
            if q:
                do({'e': 'job_commit', 'ref': q[-1]})
        ev = gen.new_pr()
        r = do(ev)
        gen.prs[-1]['id'] = r.get('res', {}).get('pr')
        for _ in range(rng.choice([5, 7, 9])):
            refs = world.refs()
            job = gen.branch_job(refs)
            if job['kind'] == 'create_branch' and rng.random() < 0.75:
                dests = sorted(n for n in refs if n.startswith('development/') or n.startswith('stabilization/'))
                pick = rng.random()
                if pick < 0.7 and dests:
                    job['args']['branch_from'] = rng.choice(dests)
                elif pick < 0.85:
                    job['args']['branch_from'] = refs[gen.prs[-1]['src']][:12] if gen.prs[-1]['src'] in refs else ''
                else:
                    job['args'].pop('branch_from', None)
            if job['kind'] == 'delete_branch' and job['args'].get('branch') in refs and rng.random() < 0.5:
                # the archive tag of the branch already exists (an earlier, aborted deletion; a release tag):
                # on its tip, or on an older commit of the branch
                b = job['args']['branch']
                ver = b.split('/', 1)[1]
                do({'e': 'tag_user', 'branch': b, 'back': rng.choice([0, 1, 1]),
                    'tag': ver + '.archived_hotfix_branch' if b.startswith('hotfix/') else ver})
            do(job)
            if rng.random() < 0.25 and cfg['use_queue']:
                do({'e': 'job_api', 'kind': rng.choice(['rebuild_queues', 'delete_queues'])})
    finally:
        world.close()
    return {'cfg': cfg, 'events': events, 'seed': seed, 'family': 'branch_jobs'}, log


def conflict_and_run(seed, on_job=None, mode=None, cfg_override=None, fault_for=None):
    """Forward-port conflict family: a pull request changes the file every destination branch rewrites, so each
    integration branch beyond the first conflicts; the author resolves on the w/ branches as instructed; another
    pull request is merged in between so that the first target is not a fast-forward."""
    rng = random.Random(seed * 15485863 + 3)
    cfg = gen_cfg(rng, mode)
    if len(dest_names(cfg['layout'])[0]) < 2:
        cfg['layout'] = rng.choice([l for l in LAYOUTS if len(dest_names(l)[0]) >= 2])
    cfg.update({'peers': 0, 'leaders': 0, 'need_author': False, 'build_key': 'pre-merge'})
    if cfg_override:
        cfg.update(cfg_override)
    world = sysworld.World(cfg)
    events, log = [], []

    def do(ev):
        events.append(ev)
        sub = run_history(world, [ev], on_job=on_job, fault_for=fault_for)
        log.extend(sub)
        return sub[0]
    try:
        gen = Gen(rng, cfg)
        ev = gen.new_pr()
        ev['dst'] = gen.dests[0] if rng.random() < 0.7 else rng.choice(gen.dests[:-1])
        ev['file'], ev['content'] = 'conf', 'conf changed by the pull request\n'
        gen.prs[-1]['dst'] = ev['dst']
        p1 = gen.prs[-1]
        p1['id'] = do(ev).get('res', {}).get('pr')
        other = gen.new_pr()
        other['dst'] = p1['dst']
        gen.prs[-1]['dst'] = other['dst']
        p2 = gen.prs[-1]
        p2['id'] = do(other).get('res', {}).get('pr')
        order = [p2, p1] if rng.random() < 0.7 else [p1, p2]
        for rounds in range(3):
            for p in order:
                if p['id'] is None:
                    continue
                st = do({'e': 'job_pr', 'pr': p['id']}).get('status')
                if st == 'Conflict' and p is p1:
                    targets = gen.targets_of(p)
                    prev = p['src']
                    for t in targets[1:]:
                        wn = 'w/%s/%s' % (t.split('/', 1)[1], p['src'])
                        do({'e': 'resolve', 'w': wn, 'dst': t, 'from': prev, 'label': 'res%d' % len(events),
                            'side': rng.choice(['theirs', 'ours'])})
                        prev = wn
                        if rng.random() < 0.3:
                            break
                    do({'e': 'job_pr', 'pr': p['id']})
                for nme in gen.tips_of(p, world.refs()):
                    do({'e': 'build', 'ref': nme, 'state': 'SUCCESSFUL' if rng.random() < 0.9 else 'FAILED'})
                do({'e': 'job_pr', 'pr': p['id']})
                q = sorted(n for n in world.refs() if n.startswith('q/w/'))
                for nme in q:
                    do({'e': 'build', 'ref': nme, 'state': 'SUCCESSFUL' if rng.random() < 0.9 else 'FAILED'})
                if q:
                    do({'e': 'job_commit', 'ref': rng.choice(q)})
    finally:
        world.close()
    return {'cfg': cfg, 'events': events, 'seed': seed, 'family': 'conflict'}, log


def manual_w_and_run(seed, on_job=None, mode=None, cfg_override=None, fault_for=None):
    """Manual-commit family: a pull request with at least three targets gets its integration branches, then its
    author pushes a commit on a *middle* integration branch (a hand-made fix); every tip is reported green and the
    pull request is evaluated until it lands (directly, or through the queue).  The later integration branches must
    pick the manual commit up (and be rebuilt) before anything is merged."""
    rng = random.Random(seed * 49979687 + 29)
    cfg = gen_cfg(rng, mode)
    if len(dest_names(cfg['layout'])[0]) < 3:
        cfg['layout'] = rng.choice([l for l in LAYOUTS if len(dest_names(l)[0]) >= 3])
    cfg.update({'peers': 0, 'leaders': 0, 'need_author': False, 'build_key': 'pre-merge'})
    if cfg_override:
        cfg.update(cfg_override)
    world = sysworld.World(cfg)
    events, log = [], []

    def do(ev):
        events.append(ev)
        sub = run_history(world, [ev], on_job=on_job, fault_for=fault_for)
        log.extend(sub)
        return sub[0]
    try:
        gen = Gen(rng, cfg)
        ev = gen.new_pr()
        ev['dst'] = rng.choice(gen.dests[:max(1, len(gen.dests) - 2)])
        gen.prs[-1]['dst'] = ev['dst']
        p = gen.prs[-1]
        p['id'] = do(ev).get('res', {}).get('pr')
        if p['id'] is not None:
            do({'e': 'job_pr', 'pr': p['id']})
            if rng.random() < 0.5:
                for nme in gen.tips_of(p, world.refs()):
                    do({'e': 'build', 'ref': nme, 'state': 'SUCCESSFUL'})
            ws = [n for n in gen.tips_of(p, world.refs()) if n.startswith('w/')]
            if len(ws) >= 2:
                do({'e': 'push', 'branch': rng.choice(ws[:-1]), 'label': 'manual%d' % seed, 'as': AUTHOR})
            for rounds in range(3):
                for nme in gen.tips_of(p, world.refs()):
                    do({'e': 'build', 'ref': nme, 'state': 'SUCCESSFUL'})
                do({'e': 'job_pr', 'pr': p['id']})
                q = sorted(n for n in world.refs() if n.startswith('q/w/'))
                for nme in q:
                    do({'e': 'build', 'ref': nme, 'state': 'SUCCESSFUL'})
                if q:
                    do({'e': 'job_commit', 'ref': rng.choice(q)})
    finally:
        world.close()
    return {'cfg': cfg, 'events': events, 'seed': seed, 'family': 'manual_w'}, log


def _ver_key(v):
    return tuple(int(x) if x.isdigit() else 10 ** 6 for x in v.split('.'))[:2] + (0 if v.count('.') >= 2 else 1,)


def queue_matrix_and_run(seed, on_job=None, mode=None, cfg_override=None, fault_for=None):
    """Queue-matrix family: two or three pull requests on different destinations are all queued first (integration
    builds green), then every queue commit gets a status drawn independently (a third of them not SUCCESSFUL),
    the queue is evaluated, some statuses are repaired and it is evaluated again - the system-level counterpart
    of the exhaustive status matrices of C05."""
    rng = random.Random(seed * 32452843 + 11)
    cfg = gen_cfg(rng, mode if mode in ('queue', 'skip') else 'queue')
    if len(dest_names(cfg['layout'])[0]) < 2:
        cfg['layout'] = rng.choice([l for l in LAYOUTS if len(dest_names(l)[0]) >= 3])
    cfg.update({'peers': 0, 'leaders': 0, 'need_author': False, 'build_key': 'pre-merge', 'use_queue': True})
    if cfg_override:
        cfg.update(cfg_override)
    world = sysworld.World(cfg)
    events, log = [], []

    def do(ev):
        events.append(ev)
        sub = run_history(world, [ev], on_job=on_job, fault_for=fault_for)
        log.extend(sub)
        return sub[0]
    try:
        gen = Gen(rng, cfg)
        n = rng.choice([2, 3, 3])
        dsts = gen.dests + gen.hot
        stabs = [d_ for d_ in gen.dests if d_.startswith('stabilization/')]
        focus = rng.choice(stabs) if stabs and rng.random() < 0.5 else None      # a pull request on a stabilization line
        for i in range(n):
            ev = gen.new_pr()
            ev['dst'] = focus if (focus and i == 0) else rng.choice(dsts)
            ev.pop('file', None)
            ev.pop('content', None)
            gen.prs[-1]['dst'] = ev['dst']
            gen.prs[-1]['id'] = do(ev).get('res', {}).get('pr')
        for p in gen.prs:                      # queue them all, in order
            if p['id'] is None:
                continue
            do({'e': 'job_pr', 'pr': p['id']})
            for nme in gen.tips_of(p, world.refs()):
                do({'e': 'build', 'ref': nme, 'state': 'SUCCESSFUL'})
            do({'e': 'job_pr', 'pr': p['id']})
        single = rng.random() < 0.5      # exactly one queue commit is not green (the lower versions more often)
        for rounds in range(3):
            q = sorted(n_ for n_ in world.refs() if n_.startswith('q/w/'))
            if not q:
                break
            if single and rounds == 0:
                byver = sorted(q, key=lambda n_: (_ver_key(n_.split('/')[3]), n_))
                bad = byver[min(len(byver) - 1, int(abs(rng.gauss(0, 1.2))))]
                onstab = [n_ for n_ in q if n_.split('/')[3].count('.') == 2]
                if focus and onstab and rng.random() < 0.7:
                    bad = rng.choice(onstab)       # the queue commit of the stabilization branch is the one not green
                order = list(q)
                rng.shuffle(order)               # reports arrive in any order
                for nme in order:
                    do({'e': 'build', 'ref': nme, 'state': rng.choice(STATES[1:]) if nme == bad else 'SUCCESSFUL'})
                do({'e': 'job_commit', 'ref': rng.choice(q)})
                continue
            for nme in q:
                if rounds == 0 or rng.random() < 0.5:
                    st = 'SUCCESSFUL' if rng.random() < (0.65 + 0.15 * rounds) else rng.choice(STATES[1:])
                    do({'e': 'build', 'ref': nme, 'state': st})
            do({'e': 'job_commit', 'ref': rng.choice(q)})
    finally:
        world.close()
    return {'cfg': cfg, 'events': events, 'seed': seed, 'family': 'queue_matrix'}, log
