"""Common machinery of the /verif checks (GEN -> PROVE -> CORR -> SEARCH -> REPORT).

One property = one plug-in module in harness/props/<id>.py exposing

    ID            "C06"
    COQ_CONE      ["Properties/C06.v"]            top file(s) whose .vo must build (PROVE)
    EXTRACT       "Extract/C06Extract.v" or None   extraction file producing build/ocaml/<ID>/model.ml
    DRIVER        "ocaml/C06_driver.ml" or None    hand written driver appended after model.ml
    def gen_facts(ctx) -> {relative .v path: text}  facts re-emitted from /repo on every run
    def run(ctx) -> None                            CORR + spec monitor; talks to ctx.*

Everything a check needs is rebuilt from /repo's working tree and from the files of /verif.
"""
import fcntl
import hashlib
import json
import os
import random
import re
import shutil
import subprocess
import sys
import time

VERIF = os.path.dirname(os.path.dirname(os.path.dirname(os.path.abspath(__file__))))
REPO = os.environ.get('VERIF_REPO', '/repo')
COQ = os.path.join(VERIF, 'coq')
BUILD = os.path.join(VERIF, 'build')
OUT = os.path.join(VERIF, 'out')
EVID = os.path.join(VERIF, 'evidence')

FORBIDDEN = re.compile(
    r'\b(Admitted|admit|Axiom|Axioms|Parameter|Parameters|Conjecture|Conjectures|'
    r'Admit\s+Obligations|Unset\s+Guard\s+Checking|Unset\s+Positivity\s+Checking|'
    r'Unset\s+Universe\s+Checking|bypass_check|type-in-type|impredicative-set|'
    r'native_compute|Hypothesis|Hypotheses|Variable|Variables)\b')
# Variable/Hypothesis are allowed inside a Section only: checked separately.
SECTION_ONLY = {'Hypothesis', 'Hypotheses', 'Variable', 'Variables'}

STDLIB_AXIOMS_OK = ()   # nothing expected; anything printed is copied to the evidence


def sh(cmd, timeout=None, cwd=None, env=None, check=False, inp=None):
    p = subprocess.run(cmd, shell=isinstance(cmd, str), cwd=cwd, env=env, input=inp,
                       stdout=subprocess.PIPE, stderr=subprocess.STDOUT, timeout=timeout)
    out = p.stdout.decode('utf-8', 'replace') if isinstance(p.stdout, bytes) else p.stdout
    if check and p.returncode != 0:
        raise RuntimeError('command failed (%d): %s\n%s' % (p.returncode, cmd, out[-4000:]))
    return p.returncode, out


class Lock:
    def __init__(self, name='coq'):
        os.makedirs(BUILD, exist_ok=True)
        self.path = os.path.join(BUILD, '.%s.lock' % name)

    def __enter__(self):
        self.f = open(self.path, 'w')
        fcntl.flock(self.f, fcntl.LOCK_EX)
        return self

    def __exit__(self, *a):
        fcntl.flock(self.f, fcntl.LOCK_UN)
        self.f.close()


def write_if_changed(path, text):
    os.makedirs(os.path.dirname(path), exist_ok=True)
    try:
        with open(path) as f:
            if f.read() == text:
                return False
    except FileNotFoundError:
        pass
    with open(path, 'w') as f:
        f.write(text)
    return True


# ----------------------------------------------------------------------------- Coq side

def coq_files():
    res = []
    for d, _, fs in os.walk(COQ):
        for f in fs:
            if f.endswith('.v'):
                res.append(os.path.relpath(os.path.join(d, f), COQ))
    return sorted(res)


def strip_comments(src):
    out, depth, i = [], 0, 0
    while i < len(src):
        if src.startswith('(*', i):
            depth += 1
            i += 2
        elif src.startswith('*)', i) and depth:
            depth -= 1
            i += 2
        else:
            if not depth:
                out.append(src[i])
            i += 1
    return ''.join(out)


def forbidden_scan(files=None):
    """Return the list of forbidden constructs found in the development."""
    bad = []
    for rel in files or coq_files():
        src = strip_comments(open(os.path.join(COQ, rel)).read())
        # strings may legitimately contain words; drop string literals
        src_nostr = re.sub(r'"(?:[^"]|"")*"', '""', src)
        depth = 0
        for ln, line in enumerate(src_nostr.split('\n'), 1):
            if re.match(r'\s*Section\b', line):
                depth += 1
            if re.match(r'\s*End\b', line) and depth:
                depth -= 1
            for m in FORBIDDEN.finditer(line):
                w = m.group(1)
                if w in SECTION_ONLY:
                    if depth == 0 and re.match(r'\s*(Local\s+|Global\s+)?' + w + r'\b', line):
                        bad.append('%s:%d: %s outside a Section' % (rel, ln, w))
                    continue
                bad.append('%s:%d: %s' % (rel, ln, w))
    return bad


def ensure_makefile():
    files = coq_files()
    proj = '-Q . BertE\n-arg -w -arg -notation-overridden,-deprecated-hint-without-locality,' \
           '-deprecated-instance-without-locality,-extraction-opaque-accessed,' \
           '-extraction-reserved-identifier\n' + '\n'.join(files) + '\n'
    changed = write_if_changed(os.path.join(COQ, '_CoqProject'), proj)
    if changed or not os.path.exists(os.path.join(COQ, 'Makefile')):
        sh('coq_makefile -f _CoqProject -o Makefile', cwd=COQ, check=True, timeout=120)


def cone(top_files):
    """Project-local dependency cone of the given .v files (coqdep)."""
    rc, out = sh(['coqdep', '-Q', '.', 'BertE'] + coq_files(), cwd=COQ, timeout=120)
    deps = {}
    for line in out.split('\n'):
        m = re.match(r'^(\S+)\.vo\b[^:]*:\s*(.*)$', line)
        if not m:
            continue
        deps[m.group(1) + '.v'] = [d[:-3] + '.v' for d in m.group(2).split()
                                   if d.endswith('.vo') and not d.startswith('/')]
    seen, todo = set(), list(top_files)
    while todo:
        f = todo.pop()
        if f in seen:
            continue
        seen.add(f)
        todo.extend(deps.get(f, []))
    return sorted(seen)


PROOF_START = re.compile(r'^\s*(?:Local\s+|Global\s+|#\[[^\]]*\]\s*)*(Theorem|Lemma|Example|Corollary|Fact|Proposition|Remark)\s+([A-Za-z0-9_\']+)', re.M)


def count_obligations(files):
    n, names = 0, []
    for rel in files:
        src = strip_comments(open(os.path.join(COQ, rel)).read())
        for m in PROOF_START.finditer(src):
            n += 1
            names.append('%s:%s' % (rel, m.group(2)))
    return n, names


def make_targets(targets, jobs=16, timeout=1500):
    ensure_makefile()
    vo = [t[:-2] + '.vo' if t.endswith('.v') else t for t in targets]
    rc, out = sh('timeout %d make -j%d %s' % (timeout, jobs, ' '.join(vo)), cwd=COQ)
    return rc == 0, out


def coqc_print_assumptions(rel, timeout=300):
    """Always recompile a Properties file to capture its Print Assumptions output."""
    rc, out = sh('timeout %d coqc -Q . BertE -w -notation-overridden %s' % (timeout, rel), cwd=COQ)
    return rc == 0, out


def parse_assumptions(out):
    """Return (closed_count, axioms list) from coqc output of Print Assumptions commands."""
    closed = len(re.findall(r'Closed under the global context', out))
    axioms = []
    for blk in re.findall(r'Axioms:\n((?:.+\n?)+?)(?:\n|$)', out):
        for line in blk.split('\n'):
            m = re.match(r'^([A-Za-z0-9_.\']+)\s*:', line)
            if m:
                axioms.append(m.group(1))
    return closed, sorted(set(axioms))


# ----------------------------------------------------------------------------- OCaml side

def build_binary(pid, driver_files):
    """model.ml is written by Extract/<pid>Extract.v into build/ocaml/<pid>/; append drivers, compile."""
    d = os.path.join(BUILD, 'ocaml', pid)
    model = os.path.join(d, 'model.ml')
    if not os.path.exists(model):
        return None, 'no extracted model at %s' % model
    src = open(model).read()
    for f in driver_files:
        src += '\n(* ---- %s ---- *)\n' % f + open(os.path.join(VERIF, f)).read()
    main = os.path.join(d, 'main.ml')
    exe = os.path.join(d, 'verif_model')
    if write_if_changed(main, src) or not os.path.exists(exe):
        for stale in ('model.mli',):
            try:
                os.remove(os.path.join(d, stale))
            except FileNotFoundError:
                pass
        rc, out = sh('timeout 600 ocamlfind ocamlopt -w -a -package str -linkpkg main.ml -o verif_model',
                     cwd=d)
        if rc != 0 or not os.path.exists(exe):
            return None, out
    return exe, ''


class Model:
    """Line protocol with the extracted binary: one request per line -> one answer per line."""

    def __init__(self, exe):
        self.exe = exe

    def batch(self, lines, timeout=3600):
        if not lines:
            return []
        data = ('\n'.join(lines) + '\n').encode()
        p = subprocess.run([self.exe], input=data, stdout=subprocess.PIPE, stderr=subprocess.PIPE,
                           timeout=timeout)
        if p.returncode != 0:
            raise RuntimeError('model binary failed: ' + p.stderr.decode()[-2000:])
        res = p.stdout.decode().split('\n')
        if res and res[-1] == '':
            res.pop()
        if len(res) != len(lines):
            raise RuntimeError('model binary answered %d lines for %d requests' % (len(res), len(lines)))
        return res

    def batch_parallel(self, lines, workers=16, timeout=3600):
        if len(lines) < 20000:
            return self.batch(lines, timeout)
        from concurrent.futures import ThreadPoolExecutor
        n = (len(lines) + workers - 1) // workers
        chunks = [lines[i:i + n] for i in range(0, len(lines), n)]
        with ThreadPoolExecutor(workers) as ex:
            parts = list(ex.map(lambda c: self.batch(c, timeout), chunks))
        return [x for p in parts for x in p]


# ----------------------------------------------------------------------------- findings

def load_known_findings():
    p = os.path.join(VERIF, 'known_findings.json')
    try:
        return json.load(open(p))
    except FileNotFoundError:
        return {'findings': [], 'fixed': []}


def canon(obj):
    return json.dumps(obj, sort_keys=True, separators=(',', ':'))


# ----------------------------------------------------------------------------- context

class Ctx:
    def __init__(self, pid, tier, seed):
        self.pid, self.tier, self.seed = pid, tier, seed
        self.rng = random.Random(seed)
        self.t0 = time.time()
        self.model = None
        self.evaluations = 0
        self.nontrivial = set()
        self.nontrivial_extra = 0
        self.samples = []
        self.hist = {}
        self.corr_mismatch = []      # impl != model  (input, impl, model)
        self.spec_fail = []          # impl violates the spec (input, expected, observed, what)
        self.notes = []
        self.exhaustive = False
        self.rule = ''
        self.extra = {}
        self.assumptions = []
        self.traces_validated = 0
        self.prove_ok = None
        self.prove_log = ''
        self.facts_changed = []

    @property
    def quick(self):
        return self.tier == 'quick'

    def count(self, key, n=1):
        self.hist[key] = self.hist.get(key, 0) + n

    def sample(self, obj, limit=6):
        if len(self.samples) < limit:
            self.samples.append(obj)

    def seen_nontrivial(self, key):
        """Record one distinct non-trivial case (key must be hashable & canonical)."""
        if isinstance(key, (dict, list)):
            key = canon(key)
        self.nontrivial.add(key if len(str(key)) < 80 else hashlib.md5(str(key).encode()).hexdigest())

    def mismatch(self, inp, impl, model, fn=''):
        if len(self.corr_mismatch) < 200:
            self.corr_mismatch.append({'function': fn, 'input': inp, 'impl': impl, 'model': model})
        else:
            self.count('corr_mismatch_dropped')

    def violation(self, inp, expected, observed, what, key=None):
        """The implementation violates the property's specification on a concrete input."""
        if len(self.spec_fail) < 200:
            self.spec_fail.append({'input': inp, 'expected': expected, 'observed': observed,
                                   'what': what, 'key': key if key is not None else canon(inp)})
        else:
            self.count('spec_fail_dropped')


def replay_path(pid, tag):
    d = os.path.join(OUT, pid)
    os.makedirs(d, exist_ok=True)
    return os.path.join(d, 'replay-%s.json' % tag)


def as_list(x):
    if not x:
        return []
    return list(x) if isinstance(x, (list, tuple)) else [x]


def python_env():
    env = dict(os.environ)
    env['PYTHONPATH'] = REPO
    env['PYTHONHASHSEED'] = '0'
    env['PYTHONDONTWRITEBYTECODE'] = '1'
    return env
