#!/venv/bin/python
"""Confirm a seeded change produced by an independent agent and run a check against it.

usage: seedcheck.py <name> <workdir with patch.diff demo.py meta.json> <property id> [--no-suite]

1. scratch worktree of /repo HEAD under /tmp, patch applied;
2. the pinned suite (the 76 stable tests of /root/.vp/BASELINE.json) must still pass there;
3. demo.py must fail on the changed tree and pass on /repo;
4. `check.py <ID> --quick` is run with VERIF_REPO=<worktree>: caught = exit 1 with a VIOLATION line;
5. everything is recorded in /verif/seeded/<name>/ (patch.diff, demo.py, meta.json); the worktree is removed.
"""
import fcntl
import json
import os
import shutil
import subprocess
import sys
import xml.etree.ElementTree as ET

VERIF = os.path.dirname(os.path.dirname(os.path.dirname(os.path.abspath(__file__))))


def sh(cmd, **kw):
    p = subprocess.run(cmd, shell=True, stdout=subprocess.PIPE, stderr=subprocess.STDOUT, **kw)
    return p.returncode, p.stdout.decode('utf-8', 'replace')


def main():
    name, work, pid = sys.argv[1], sys.argv[2], sys.argv[3]
    wt = '/tmp/seed_%s' % name
    sh('git -C /repo worktree remove --force %s' % wt)
    rc, out = sh('git -C /repo worktree add %s HEAD' % wt)
    res = {'name': name, 'property': pid}
    try:
        rc, out = sh('git -C %s apply --3way %s/patch.diff' % (wt, work))
        res['patch_applies'] = rc == 0
        if rc != 0:
            res['apply_error'] = out[-800:]
            print(json.dumps(res, indent=1))
            return 2
        if '--no-suite' not in sys.argv:
            junit = '/tmp/seed_%s.xml' % name
            rc, out = sh('cd %s && /venv/bin/python -m pytest -q -p no:cacheprovider --timeout=900 '
                         '--continue-on-collection-errors --junitxml=%s bert_e/tests/unit bert_e/tests/test_server.py '
                         'bert_e/tests/test_git_host.py "bert_e/tests/test_bert_e.py::QuickTest" '
                         '"bert_e/tests/test_bert_e.py::BuildFailedTest" >/dev/null 2>&1' % (wt, junit))
            passed = set()
            for tc in ET.parse(junit).getroot().iter('testcase'):
                if not list(tc):
                    passed.add('%s::%s' % (tc.get('classname'), tc.get('name')))
            base = json.load(open('/root/.vp/BASELINE.json'))['stable_pass']
            missing = [t for t in base if t not in passed]
            res['pinned_suite'] = {'baseline': len(base), 'passing': len(base) - len(missing), 'missing': missing}
            os.remove(junit)
        env = dict(os.environ, HOME='/tmp/seed_%s_home' % name)
        os.makedirs(env['HOME'], exist_ok=True)
        rc1, out1 = sh('cd %s && PYTHONPATH=%s timeout 900 /venv/bin/python demo.py' % (work, wt), env=env)
        rc0, out0 = sh('cd %s && PYTHONPATH=/repo timeout 900 /venv/bin/python demo.py' % work, env=env)
        shutil.rmtree(env['HOME'], ignore_errors=True)
        res['demo_on_change_exit'] = rc1
        res['demo_on_repo_exit'] = rc0
        res['demo_tail_on_change'] = out1[-400:]
        rc, out = sh('cd %s/harness && VERIF_REPO=%s /venv/bin/python check.py %s --quick' % (VERIF, wt, pid))
        lines = [l for l in out.split('\n') if l.startswith('VIOLATION') or l.startswith('KNOWN-FINDING')
                 or l.startswith(pid + ' ')]
        res['check'] = {'cmd': 'VERIF_REPO=<tree with patch> harness/check.py %s --quick' % pid, 'exit': rc,
                        'lines': lines[:4], 'caught': rc == 1 and any(l.startswith('VIOLATION') for l in lines),
                        'with_failing_input': any(l.startswith('VIOLATION') and 'no-failing-input-found' not in l
                                                  for l in lines)}
        # restore facts / evidence of the real tree
        sh('cd %s/harness && /venv/bin/python check.py %s --quick' % (VERIF, pid))
    finally:
        sh('git -C /repo worktree remove --force %s' % wt)
    dst = os.path.join(VERIF, 'seeded', name)
    os.makedirs(dst, exist_ok=True)
    for f in ('patch.diff', 'demo.py'):
        if os.path.realpath(os.path.join(work, f)) != os.path.realpath(os.path.join(dst, f)):
            shutil.copy(os.path.join(work, f), os.path.join(dst, f))
    meta = {}
    try:
        meta = json.load(open(os.path.join(work, 'meta.json')))
    except Exception:
        pass
    prev = {}
    try:
        prev = json.load(open(os.path.join(dst, 'meta.json'))).get('confirmed_by_main_session', {})
    except Exception:
        pass
    if 'pinned_suite' not in res and 'pinned_suite' in prev:
        res['pinned_suite'] = prev['pinned_suite']
    if meta.get('property') and meta['property'] != pid and prev:
        # the check of ANOTHER property run against this change: kept beside the result of the property's own check
        prev.setdefault('cross_checks', {})[pid] = res['check']
        meta['confirmed_by_main_session'] = prev
        json.dump(meta, open(os.path.join(dst, 'meta.json'), 'w'), indent=1)
        print(json.dumps(res, indent=1)[:3000])
        return 0
    if prev.get('check') and not prev['check'].get('with_failing_input'):
        res['first_run_before_strengthening'] = prev.get('first_run_before_strengthening') or prev['check']
    if prev.get('cross_checks'):
        res['cross_checks'] = prev['cross_checks']
    meta['confirmed_by_main_session'] = res
    json.dump(meta, open(os.path.join(dst, 'meta.json'), 'w'), indent=1)
    print(json.dumps(res, indent=1)[:3000])
    return 0


if __name__ == '__main__':
    # one run per property at a time (the generated facts of a property are shared)
    _lk = open('/tmp/verif_prop_%s.lock' % sys.argv[3], 'w')
    fcntl.flock(_lk, fcntl.LOCK_EX)
    sys.exit(main())
