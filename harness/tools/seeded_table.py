#!/usr/bin/env python3
"""Print the markdown table of the seeded changes kept under /verif/seeded (for DESIGN.md)."""
import glob
import json
import os
import re

VERIF = os.path.dirname(os.path.dirname(os.path.dirname(os.path.abspath(__file__))))
rows = []
for d in sorted(glob.glob(os.path.join(VERIF, 'seeded', '*'))):
    try:
        m = json.load(open(os.path.join(d, 'meta.json')))
    except Exception:
        continue
    c = m.get('confirmed_by_main_session', {})
    chk = c.get('check', {})
    how = 'failing input' if chk.get('with_failing_input') else ('no-failing-input-found' if chk.get('caught') else 'MISSED')
    line = ' '.join(chk.get('lines', []))
    g = re.search(r'prove=(\w+).*mismatches=(\d+) spec_failures=(\d+)', line)
    by = []
    if g:
        if g.group(1) != 'True':
            by.append('PROVE')
        if int(g.group(2)):
            by.append('CORR %s' % g.group(2))
        if int(g.group(3)):
            by.append('monitor %s' % g.group(3))
    first = c.get('first_run_before_strengthening', {}).get('check', c.get('first_run_before_strengthening', {}))
    note = ''
    if first and not first.get('with_failing_input', True):
        note = 'missed at first' if not first.get('caught') else 'at first without failing input'
    rows.append('| %s | %s | %s | %s | %s | %s |' % (
        os.path.basename(d),
        str(m.get('summary', '')).replace('|', '/').replace('\n', ' ')[:150],
        str(m.get('needs', '')).replace('|', '/').replace('\n', ' ')[:110], how, ', '.join(by), note))
print('| seeded change | what was changed | needs | `check.py <ID> --quick` | raised by | history |')
print('|---|---|---|---|---|---|')
print('\n'.join(rows))
