#!/usr/bin/env python3
"""Markdown table of the seeded changes kept under /verif/seeded.
   seeded_table.py                 print it
   seeded_table.py --update-design rewrite the section between the SEEDED-TABLE markers of DESIGN.md"""
import glob
import json
import os
import re
import sys

VERIF = os.path.dirname(os.path.dirname(os.path.dirname(os.path.abspath(__file__))))


def stages(chk):
    line = ' '.join(chk.get('lines', []))
    g = re.search(r'prove=(\w+).*mismatches=(\d+) spec_failures=(\d+)', line)
    by = []
    if g:
        if g.group(1) != 'True':
            by.append('PROVE')
        if int(g.group(2)):
            by.append('CORR %s' % g.group(2))
        if int(g.group(3)):
            by.append('monitor %s' % g.group(3))
    return ', '.join(by)


def verdict(chk):
    if chk.get('with_failing_input'):
        return 'failing input'
    return 'no-failing-input-found' if chk.get('caught') else 'MISSED'


def table():
    rows = []
    for d in sorted(glob.glob(os.path.join(VERIF, 'seeded', '*'))):
        try:
            m = json.load(open(os.path.join(d, 'meta.json')))
        except Exception:
            continue
        c = m.get('confirmed_by_main_session', {})
        chk = c.get('check', {})
        first = c.get('first_run_before_strengthening', {})
        first = first.get('check', first)
        note = ''
        if first and not first.get('with_failing_input', True):
            note = 'missed at first' if not first.get('caught') else 'at first without failing input'
        cross = '; '.join('%s: %s' % (p, verdict(v)) for p, v in sorted(c.get('cross_checks', {}).items()))
        rows.append('| %s | %s | %s | %s | %s | %s | %s |' % (
            os.path.basename(d),
            str(m.get('summary', '')).replace('|', '/').replace('\n', ' ')[:170],
            str(m.get('needs', '')).replace('|', '/').replace('\n', ' ')[:130], verdict(chk), stages(chk), cross, note))
    head = ('| seeded change | what was changed | needs | own check, quick tier | raised by | other checks | history |\n'
            '|---|---|---|---|---|---|---|\n')
    return head + '\n'.join(rows) + '\n'


if __name__ == '__main__':
    t = table()
    if '--update-design' in sys.argv:
        p = os.path.join(VERIF, 'DESIGN.md')
        s = open(p).read()
        a, b = '<!-- SEEDED-TABLE-BEGIN -->', '<!-- SEEDED-TABLE-END -->'
        if a not in s:
            sys.exit('markers not found in DESIGN.md')
        s = s[:s.index(a) + len(a)] + '\n' + t + s[s.index(b):]
        open(p, 'w').write(s)
    else:
        print(t)
