#!/usr/bin/env python3
"""Print the markdown table of the seeded changes kept under /verif/seeded (for DESIGN.md)."""
import glob
import json
import os

VERIF = os.path.dirname(os.path.dirname(os.path.dirname(os.path.abspath(__file__))))
rows = []
for d in sorted(glob.glob(os.path.join(VERIF, 'seeded', '*'))):
    try:
        m = json.load(open(os.path.join(d, 'meta.json')))
    except Exception:
        continue
    c = m.get('confirmed_by_main_session', {})
    chk = c.get('check', {})
    how = 'failing input' if chk.get('with_failing_input') else ('no-failing-input-found' if chk.get('caught') else 'MISSED')
    rows.append('| %s | %s | %s | %s | %s |' % (
        os.path.basename(d), m.get('property', c.get('property')),
        str(m.get('summary', '')).replace('|', '/').replace('\n', ' ')[:170],
        str(m.get('needs', '')).replace('|', '/').replace('\n', ' ')[:150], how))
print('| seeded change | property | what was changed | needs | check.py <ID> --quick |')
print('|---|---|---|---|---|')
print('\n'.join(rows))
