#!/venv/bin/python
"""Run a check against behaviour-preserving refactorings produced by an independent agent: no alarm expected.

usage: refcheck.py <property id> <workdir with r1.diff r2.diff r3.diff meta.json> [other property ids ...]

For every r<k>.diff: scratch worktree of /repo HEAD under /tmp with the patch applied; the pinned suite must
still pass there; `check.py <ID> --quick` (for the property and for every other id given) is run with
VERIF_REPO=<worktree>: quiet = exit 0 and no VIOLATION line.  Everything is recorded in
/verif/refactors/<ID>/ (the patches, meta.json); the worktree is removed and the facts / evidence of the real
tree are restored by a last run on /repo.
"""
import fcntl
import glob
import json
import os
import shutil
import subprocess
import sys
import xml.etree.ElementTree as ET

VERIF = os.path.dirname(os.path.dirname(os.path.dirname(os.path.abspath(__file__))))


def sh(cmd, **kw):
    p = subprocess.run(cmd, shell=True, stdout=subprocess.PIPE, stderr=subprocess.STDOUT, **kw)
    return p.returncode, p.stdout.decode('utf-8', 'replace')


def suite(wt, tag):
    junit = '/tmp/ref_%s.xml' % tag
    sh('cd %s && /venv/bin/python -m pytest -q -p no:cacheprovider --timeout=900 '
       '--continue-on-collection-errors --junitxml=%s bert_e/tests/unit bert_e/tests/test_server.py '
       'bert_e/tests/test_git_host.py "bert_e/tests/test_bert_e.py::QuickTest" '
       '"bert_e/tests/test_bert_e.py::BuildFailedTest" >/dev/null 2>&1' % (wt, junit))
    passed = set()
    for tc in ET.parse(junit).getroot().iter('testcase'):
        if not list(tc):
            passed.add('%s::%s' % (tc.get('classname'), tc.get('name')))
    os.remove(junit)
    base = json.load(open('/root/.vp/BASELINE.json'))['stable_pass']
    missing = [t for t in base if t not in passed]
    return {'baseline': len(base), 'passing': len(base) - len(missing), 'missing': missing}


def main():
    pid, work = sys.argv[1], sys.argv[2]
    pids = [pid] + sys.argv[3:]
    dst = os.path.join(VERIF, 'refactors', pid)
    os.makedirs(dst, exist_ok=True)
    meta = {}
    try:
        meta = json.load(open(os.path.join(work, 'meta.json')))
    except Exception:
        pass
    results = {}
    for diff in sorted(glob.glob(os.path.join(work, 'r*.diff'))):
        k = os.path.basename(diff)[:-5]
        wt = '/tmp/refchk_%s_%s' % (pid, k)
        sh('git -C /repo worktree remove --force %s' % wt)
        sh('git -C /repo worktree add %s HEAD' % wt)
        res = {}
        try:
            rc, out = sh('git -C %s apply --3way %s' % (wt, diff))
            res['patch_applies'] = rc == 0
            if rc == 0:
                res['pinned_suite'] = suite(wt, pid + k)
                res['checks'] = {}
                for p in pids:
                    rc, out = sh('cd %s/harness && VERIF_REPO=%s /venv/bin/python check.py %s --quick' % (VERIF, wt, p))
                    lines = [l for l in out.split('\n') if l.startswith('VIOLATION') or l.startswith(p + ' ')]
                    res['checks'][p] = {'exit': rc, 'lines': lines[:4],
                                        'quiet': rc == 0 and not any(l.startswith('VIOLATION') for l in lines)}
                    keep = os.path.join(dst, '%s_%s_alarm.log' % (k, p))
                    if not res['checks'][p]['quiet']:
                        open(keep, 'w').write(out[-6000:])
                    elif os.path.exists(keep):
                        os.remove(keep)          # the alarm of an earlier run is gone
        finally:
            sh('git -C /repo worktree remove --force %s' % wt)
        if os.path.realpath(diff) != os.path.realpath(os.path.join(dst, os.path.basename(diff))):
            shutil.copy(diff, os.path.join(dst, os.path.basename(diff)))
        results[k] = res
    for p in pids:   # restore facts / evidence of the real tree
        sh('cd %s/harness && /venv/bin/python check.py %s --quick' % (VERIF, p))
    prev = {}
    try:
        prev = json.load(open(os.path.join(dst, 'meta.json')))
    except Exception:
        pass
    merged = dict(prev)                       # earlier rounds (other r<k>) keep their description and result
    merged.update({k: v for k, v in meta.items() if k != 'checked_by_main_session'})
    merged['checked_by_main_session'] = dict(prev.get('checked_by_main_session', {}), **results)
    json.dump(merged, open(os.path.join(dst, 'meta.json'), 'w'), indent=1)
    print(json.dumps(results, indent=1)[:4000])
    return 0


if __name__ == '__main__':
    # one run per property at a time (the generated facts of a property are shared)
    _lks = []
    for _p in sorted(set([sys.argv[1]] + sys.argv[3:])):
        _lks.append(open('/tmp/verif_prop_%s.lock' % _p, 'w'))
        fcntl.flock(_lks[-1], fcntl.LOCK_EX)
    sys.exit(main())
